// Copyright (C) 2019-2026 Algorand Foundation Ltd.
// This file is part of go-algorand
//
// go-algorand is free software: you can redistribute it and/or modify
// it under the terms of the GNU Affero General Public License as
// published by the Free Software Foundation, either version 3 of the
// License, or (at your option) any later version.
//
// go-algorand is distributed in the hope that it will be useful,
// but WITHOUT ANY WARRANTY; without even the implied warranty of
// MERCHANTABILITY or FITNESS FOR A PARTICULAR PURPOSE.  See the
// GNU Affero General Public License for more details.
//
// You should have received a copy of the GNU Affero General Public License
// along with go-algorand.  If not, see <https://www.gnu.org/licenses/>.

package ledger

// Investigation C16: catchpoint catchup tamper rejection.
//
// Property under test: a catchpoint file whose contents differ in any way from what the
// label commits to must be rejected before the node switches to it.
//
// The tests below build a producer tracker database, compute the catchpoint label purely
// from the producer's state (the same way catchpointTracker does), write the genuine
// catchpoint file with the repo's own writer, then feed a fresh ledger's
// CatchpointCatchupAccessor with either the genuine or a tampered section stream, following
// the same call sequence as catchup/catchpointService.go + catchup/ledgerFetcher.go:
//
//	ResetStagingBalances(true); SetLabel(label);
//	for each tar section: ProcessStagingBalances(name, bytes, &progress)
//	BuildMerkleTrie; VerifyCatchpoint(blk); (then the switch: finishBalances)
//
// Each "tamper" subtest asserts that the tampering is REJECTED. If the tampered stream is
// accepted the subtest fails and prints the restored (wrong) balance next to the producer's.

import (
	"context"
	"fmt"
	"path/filepath"
	"sort"
	"strings"
	"testing"

	"github.com/stretchr/testify/require"

	"github.com/algorand/go-algorand/config"
	"github.com/algorand/go-algorand/crypto"
	"github.com/algorand/go-algorand/crypto/merkletrie"
	"github.com/algorand/go-algorand/data/basics"
	"github.com/algorand/go-algorand/data/bookkeeping"
	"github.com/algorand/go-algorand/ledger/encoded"
	"github.com/algorand/go-algorand/ledger/ledgercore"
	"github.com/algorand/go-algorand/ledger/store/trackerdb"
	ledgertesting "github.com/algorand/go-algorand/ledger/testing"
	"github.com/algorand/go-algorand/logging"
	"github.com/algorand/go-algorand/protocol"
	"github.com/algorand/go-algorand/test/partitiontest"
)

type c16Producer struct {
	accts    map[basics.Address]basics.AccountData
	sections []decodedCatchpointChunkData // genuine tar sections: content.msgpack, stateProofVerificationContext.msgpack, balances.N.msgpack
	header   CatchpointFileHeader
	label    string            // label computed from the PRODUCER's database, not from the file
	blk      bookkeeping.Block // block at header.BlocksRound whose digest is bound into the label
	totals   ledgercore.AccountTotals
}

// c16MakeProducer builds a producer DB with a few accounts (some of them with resources), writes the
// genuine catchpoint file and computes the label from the producer state.
func c16MakeProducer(t *testing.T, maxResourcesPerChunk int) c16Producer {
	testProtocolVersion := protocol.ConsensusVersion("test-protocol-C16")
	protoParams := config.Consensus[protocol.ConsensusCurrentVersion]
	protoParams.CatchpointLookback = 32
	config.Consensus[testProtocolVersion] = protoParams
	t.Cleanup(func() { delete(config.Consensus, testProtocolVersion) })

	// full random accounts: carry assets / apps
	accts := ledgertesting.RandomAccounts(12, false)
	// make sure at least one account has a known, sizable number of resources
	var richAddr basics.Address
	for addr := range accts {
		richAddr = addr
		break
	}
	{
		acct := accts[richAddr]
		if acct.AssetParams == nil {
			acct.AssetParams = make(map[basics.AssetIndex]basics.AssetParams)
		}
		for i := 0; i < 12; i++ {
			acct.AssetParams[basics.AssetIndex(900000+i)] = ledgertesting.RandomAssetParams()
		}
		accts[richAddr] = acct
	}

	// and one plain account without any resources
	plain := basics.AccountData{Status: basics.Offline}
	plain.MicroAlgos.Raw = 123_456_789
	accts[ledgertesting.RandomAddress()] = plain

	ml := makeMockLedgerForTracker(t, true, 10, testProtocolVersion, []map[basics.Address]basics.AccountData{accts})
	t.Cleanup(ml.Close)

	conf := config.GetDefaultLocal()
	conf.CatchpointInterval = 1
	conf.Archival = true
	au, _ := newAcctUpdates(t, ml, conf)
	err := au.loadFromDisk(ml, 0)
	require.NoError(t, err)
	au.close()

	tmp := t.TempDir()

	// The mock producer does not maintain the balances merkle trie. Build it with the producer-side code
	// (catchpointTracker.initializeHashes, the same routine a real node runs when loading the tracker DB),
	// which hashes every accountbase/resources/kvstore row of the producer DB.
	ct := &catchpointTracker{}
	ct.initialize(conf, DirsAndPrefix{ResolvedGenesisDirs: config.ResolvedGenesisDirs{CatchpointGenesisDir: tmp, HotGenesisDir: tmp}})
	ct.log = logging.TestingLog(t)
	require.True(t, ct.catchpointEnabled())
	err = ml.trackerDB().Transaction(func(ctx context.Context, tx trackerdb.TransactionScope) error {
		ar, err := tx.MakeAccountsReader()
		if err != nil {
			return err
		}
		rnd, err := ar.AccountsRound()
		if err != nil {
			return err
		}
		return ct.initializeHashes(ctx, tx, rnd)
	})
	require.NoError(t, err)

	dataPath := filepath.Join(tmp, "15.data")
	filePath := filepath.Join(tmp, "15.catchpoint")
	// uses the repo's own catchpointFileWriter + repackCatchpoint; also does a sanity restore of the genuine file.
	header := testWriteCatchpoint(t, protoParams, ml.trackerDB(), dataPath, filePath, maxResourcesPerChunk, 0)

	p := c16Producer{accts: accts, header: header}
	p.sections = readCatchpointFile(t, filePath)
	require.NotEmpty(t, p.sections)
	require.Equal(t, CatchpointContentFileName, p.sections[0].headerName)

	// the "latest block" whose digest the label binds.
	p.blk.BlockHeader.Round = header.BlocksRound
	p.blk.BlockHeader.GenesisID = "C16"
	blockDigest := p.blk.Digest()

	// compute the label from the producer's database exactly as catchpointTracker does
	// (finishFirstStage / createCatchpoint): trie root, totals, SP verification hash,
	// online accounts hash, online round params hash.
	var balancesHash, spHash, oaHash, orpHash crypto.Digest
	err = ml.trackerDB().Transaction(func(ctx context.Context, tx trackerdb.TransactionScope) error {
		ar, err := tx.MakeAccountsReader()
		if err != nil {
			return err
		}
		accountsRnd, err := ar.AccountsRound()
		if err != nil {
			return err
		}
		require.Equal(t, header.BalancesRound, accountsRnd)
		mc, err := tx.MakeMerkleCommitter(false)
		if err != nil {
			return err
		}
		trie, err := merkletrie.MakeTrie(mc, trackerdb.TrieMemoryConfig)
		if err != nil {
			return err
		}
		balancesHash, err = trie.RootHash()
		if err != nil {
			return err
		}
		p.totals, err = ar.AccountsTotals(ctx, false)
		if err != nil {
			return err
		}
		rawSP, err := tx.MakeSpVerificationCtxReader().GetAllSPContexts(ctx)
		if err != nil {
			return err
		}
		spHash = crypto.HashObj(catchpointStateProofVerificationContext{Data: rawSP})
		oaHash, _, err = calculateVerificationHash(ctx, makeCatchpointOrderedOnlineAccountsIterFactory(tx.MakeOrderedOnlineAccountsIter, accountsRnd, protoParams), 0, false)
		if err != nil {
			return err
		}
		orpHash, _, err = calculateVerificationHash(ctx, tx.MakeOnlineRoundParamsIter, 0, false)
		return err
	})
	require.NoError(t, err)
	require.NotEqual(t, crypto.Digest{}, balancesHash, "producer merkle trie is empty; cannot derive a producer-side label")
	require.Equal(t, header.Totals, p.totals)

	p.label = ledgercore.MakeLabel(ledgercore.MakeCatchpointLabelMakerCurrent(header.BlocksRound, &blockDigest, &balancesHash, p.totals, &spHash, &oaHash, &orpHash))
	return p
}

type c16RestoreResult struct {
	l     *Ledger
	stage string // the stage at which an error was returned ("" if none)
	err   error
}

// c16Restore replays what the catchpoint service does with a downloaded catchpoint file, up to and
// including VerifyCatchpoint. It does NOT perform the switch; call c16Switch for that.
func c16Restore(t *testing.T, sections []decodedCatchpointChunkData, label string, blk *bookkeeping.Block) (res c16RestoreResult) {
	var initState ledgercore.InitState
	initState.Block.CurrentProtocol = protocol.ConsensusCurrentVersion
	conf := config.GetDefaultLocal()
	dbName := fmt.Sprintf("%s.%d", t.Name()+"FromCatchpoint", crypto.RandUint64())
	dbName = strings.Replace(dbName, "/", "_", -1)
	l, err := OpenLedger(logging.TestingLog(t), dbName, true, initState, conf)
	require.NoError(t, err)
	t.Cleanup(l.Close)
	res.l = l

	ctx := context.Background()
	accessor := MakeCatchpointCatchupAccessor(l, l.log)
	require.NoError(t, accessor.ResetStagingBalances(ctx, true))
	require.NoError(t, accessor.SetLabel(ctx, label))

	var progress CatchpointCatchupAccessorProgress
	for _, s := range sections {
		err = accessor.ProcessStagingBalances(ctx, s.headerName, s.data, &progress)
		if err != nil {
			res.stage, res.err = "ProcessStagingBalances("+s.headerName+")", err
			return
		}
	}
	err = accessor.BuildMerkleTrie(ctx, nil)
	if err != nil {
		res.stage, res.err = "BuildMerkleTrie", err
		return
	}
	err = accessor.VerifyCatchpoint(ctx, blk)
	if err != nil {
		res.stage, res.err = "VerifyCatchpoint", err
		return
	}
	return
}

// c16Switch performs the balances switch (staging tables -> live tables), the same call CompleteCatchup makes
// (CompleteCatchup = FinishBlocks + finishBalances + reloadLedger; the existing catchpoint tests in this package
// use finishBalances directly because the mock producer has no usable block DB for reloadLedger's migrations).
func c16Switch(t *testing.T, l *Ledger) error {
	accessor := MakeCatchpointCatchupAccessor(l, l.log)
	return accessor.(*catchpointCatchupAccessorImpl).finishBalances(context.Background())
}

// c16LookupBase reads the restored accountbase row of addr (raw table scan through the repo's own
// EncodedAccountsBatchIter; the optimized readers cannot be prepared before reloadLedger ran the later migrations).
func c16LookupBase(t *testing.T, l *Ledger, addr basics.Address) (bad trackerdb.BaseAccountData) {
	found := false
	err := l.trackerDB().Snapshot(func(ctx context.Context, tx trackerdb.SnapshotScope) (err error) {
		it := tx.MakeEncodedAccountsBatchIter()
		defer it.Close()
		for {
			bals, _, err := it.Next(ctx, BalancesPerCatchpointFileChunk, ResourcesPerCatchpointFileChunk)
			if err != nil {
				return err
			}
			if len(bals) == 0 {
				return nil
			}
			for _, b := range bals {
				if b.Address == addr {
					found = true
					if err := protocol.Decode(b.AccountData, &bad); err != nil {
						return err
					}
				}
			}
		}
	})
	require.NoError(t, err)
	require.True(t, found, "account %v not found in restored accountbase", addr)
	return
}

// c16SumRestoredAlgos sums MicroAlgos over every row of the restored accountbase table.
func c16SumRestoredAlgos(t *testing.T, l *Ledger) (sum uint64, rows int) {
	err := l.trackerDB().Snapshot(func(ctx context.Context, tx trackerdb.SnapshotScope) (err error) {
		it := tx.MakeEncodedAccountsBatchIter()
		defer it.Close()
		for {
			bals, _, err := it.Next(ctx, BalancesPerCatchpointFileChunk, ResourcesPerCatchpointFileChunk)
			if err != nil {
				return err
			}
			if len(bals) == 0 {
				return nil
			}
			for _, b := range bals {
				if b.ExpectingMoreEntries {
					continue
				}
				var bad trackerdb.BaseAccountData
				if err := protocol.Decode(b.AccountData, &bad); err != nil {
					return err
				}
				sum += bad.MicroAlgos.Raw
				rows++
			}
		}
	})
	require.NoError(t, err)
	return
}

func c16NumResources(ad basics.AccountData) int {
	return len(ad.AssetParams) + len(ad.Assets) + len(ad.AppParams) + len(ad.AppLocalStates)
}

func c16CloneSections(in []decodedCatchpointChunkData) []decodedCatchpointChunkData {
	out := make([]decodedCatchpointChunkData, len(in))
	for i := range in {
		out[i].headerName = in[i].headerName
		out[i].data = append([]byte(nil), in[i].data...)
	}
	return out
}

// c16BalanceChunks returns the indices (into sections) of the balances.N.msgpack sections that carry at least one
// balance record, together with their decoded form.
func c16BalanceChunks(t *testing.T, sections []decodedCatchpointChunkData) (idxs []int, chunks map[int]*CatchpointSnapshotChunkV6) {
	chunks = make(map[int]*CatchpointSnapshotChunkV6)
	for i, s := range sections {
		if !strings.HasPrefix(s.headerName, catchpointBalancesFileNamePrefix) {
			continue
		}
		var chunk CatchpointSnapshotChunkV6
		require.NoError(t, protocol.Decode(s.data, &chunk))
		if len(chunk.Balances) > 0 {
			idxs = append(idxs, i)
			chunks[i] = &chunk
		}
	}
	sort.Ints(idxs)
	require.NotEmpty(t, idxs)
	return
}

func c16AlterAlgos(t *testing.T, encodedBase []byte, newAlgos uint64) []byte {
	var bad trackerdb.BaseAccountData
	require.NoError(t, protocol.Decode(encodedBase, &bad))
	bad.MicroAlgos.Raw = newAlgos
	return protocol.Encode(&bad)
}

// TestFindingC16Controls makes sure the harness itself is sound:
//   - the genuine file verifies against the label computed from the PRODUCER state, and restores the producer accounts
//   - a "plain" tamper (changing the MicroAlgos of a regular, final balance entry) is rejected by VerifyCatchpoint
func TestFindingC16Controls(t *testing.T) {
	partitiontest.PartitionTest(t)
	// no t.Parallel: config.Consensus is modified

	p := c16MakeProducer(t, 0)

	t.Run("genuine-accepted", func(t *testing.T) {
		res := c16Restore(t, p.sections, p.label, &p.blk)
		require.NoErrorf(t, res.err, "genuine catchpoint rejected at %s", res.stage)
		require.NoError(t, c16Switch(t, res.l))
		for addr, acct := range p.accts {
			got, _, _, err := res.l.LookupLatest(addr)
			require.NoError(t, err)
			require.Equal(t, acct, got)
		}
		sum, rows := c16SumRestoredAlgos(t, res.l)
		require.Equal(t, len(p.accts), rows)
		require.Equal(t, p.totals.All().Raw, sum, "sum of restored balances must equal the totals the label commits to")
	})

	t.Run("plain-tamper-rejected", func(t *testing.T) {
		sections := c16CloneSections(p.sections)
		idxs, chunks := c16BalanceChunks(t, sections)
		chunk := chunks[idxs[0]]
		require.False(t, chunk.Balances[0].ExpectingMoreEntries)
		var bad trackerdb.BaseAccountData
		require.NoError(t, protocol.Decode(chunk.Balances[0].AccountData, &bad))
		chunk.Balances[0].AccountData = c16AlterAlgos(t, chunk.Balances[0].AccountData, bad.MicroAlgos.Raw+1)
		sections[idxs[0]].data = protocol.Encode(chunk)

		res := c16Restore(t, sections, p.label, &p.blk)
		require.Error(t, res.err)
		require.Equal(t, "VerifyCatchpoint", res.stage)
		t.Logf("plain tamper rejected as expected: %v", res.err)
	})
}

// TestFindingC16PartialEntryAlteredAccountData is variant (a): in front of an account's real (final) balance entry the
// tampered file carries an additional PARTIAL entry (ExpectingMoreEntries=true) for the same address whose AccountData
// has a different MicroAlgos value. Everything else (header, totals, every other record) is byte-for-byte the genuine file.
func TestFindingC16PartialEntryAlteredAccountData(t *testing.T) {
	partitiontest.PartitionTest(t)
	// no t.Parallel: config.Consensus is modified

	p := c16MakeProducer(t, 0)

	run := func(t *testing.T, pickWithResources bool, moveResources bool, separateChunk bool) {
		sections := c16CloneSections(p.sections)
		idxs, chunks := c16BalanceChunks(t, sections)
		ci := idxs[0]
		chunk := chunks[ci]

		// pick the victim
		victim := -1
		for i, b := range chunk.Balances {
			if b.ExpectingMoreEntries {
				continue
			}
			if (len(b.Resources) > 0) == pickWithResources {
				victim = i
				break
			}
		}
		require.NotEqual(t, -1, victim, "no suitable victim account in first chunk")
		real := chunk.Balances[victim]

		var genuineBase trackerdb.BaseAccountData
		require.NoError(t, protocol.Decode(real.AccountData, &genuineBase))
		const bonus = 1_000_000_000_000_000 // +1 billion Algos
		forged := encoded.BalanceRecordV6{
			Address:              real.Address,
			AccountData:          c16AlterAlgos(t, real.AccountData, genuineBase.MicroAlgos.Raw+bonus),
			ExpectingMoreEntries: true,
		}
		if moveResources {
			// hand the account's genuine resources over to the forged partial entry, the way a genuine
			// multi-chunk account looks like (resources in the partial entries, the remainder in the final entry).
			forged.Resources = real.Resources
			real.Resources = nil
		}

		if separateChunk {
			// forged entry travels in its own, additional balances section placed right before the genuine one
			// (this also works when the genuine chunk is already at its 512-entry allocbound).
			extra := CatchpointSnapshotChunkV6{Balances: []encoded.BalanceRecordV6{forged}}
			// the victim must directly follow: move it to the front of its chunk.
			rest := append([]encoded.BalanceRecordV6{real}, append(append([]encoded.BalanceRecordV6{}, chunk.Balances[:victim]...), chunk.Balances[victim+1:]...)...)
			chunk.Balances = rest
			sections[ci].data = protocol.Encode(chunk)
			extraSection := decodedCatchpointChunkData{headerName: catchpointBalancesFileNamePrefix + "forged" + catchpointBalancesFileNameSuffix, data: protocol.Encode(&extra)}
			sections = append(sections[:ci], append([]decodedCatchpointChunkData{extraSection}, sections[ci:]...)...)
		} else {
			nb := make([]encoded.BalanceRecordV6, 0, len(chunk.Balances)+1)
			nb = append(nb, chunk.Balances[:victim]...)
			nb = append(nb, forged, real)
			nb = append(nb, chunk.Balances[victim+1:]...)
			chunk.Balances = nb
			sections[ci].data = protocol.Encode(chunk)
		}

		res := c16Restore(t, sections, p.label, &p.blk)
		if res.err != nil {
			t.Logf("tampered file rejected at %s: %v", res.stage, res.err)
			return
		}
		// not rejected so far; the only thing left before the node uses the data is the switch.
		if err := c16Switch(t, res.l); err != nil {
			t.Logf("tampered file rejected at the switch (finishBalances): %v", err)
			return
		}
		pad := c16LookupBase(t, res.l, real.Address)
		got, _, _, err := res.l.LookupLatest(real.Address)
		require.NoError(t, err)
		sum, rows := c16SumRestoredAlgos(t, res.l)
		if pad.MicroAlgos.Raw != genuineBase.MicroAlgos.Raw {
			t.Fatalf("TAMPERED CATCHPOINT ACCEPTED (variant a, victimHasResources=%v moveResources=%v separateChunk=%v): "+
				"label %s verified by VerifyCatchpoint and balances switched in, but account %v was restored with MicroAlgos=%d (LookupLatest: %d) "+
				"while the producer has %d; restored accountbase rows=%d sum(MicroAlgos)=%d vs label-bound totals.All()=%d; restored #resources=%d (producer %d) - i.e. only the base record differs",
				pickWithResources, moveResources, separateChunk,
				p.label, real.Address, pad.MicroAlgos.Raw, got.MicroAlgos.Raw,
				genuineBase.MicroAlgos.Raw, rows, sum, p.totals.All().Raw, c16NumResources(got), c16NumResources(p.accts[real.Address]))
		}
		t.Logf("tampered file accepted but restored data equals the producer's (forged partial entry had no effect)")
	}

	t.Run("no-resources/same-chunk", func(t *testing.T) { run(t, false, false, false) })
	t.Run("with-resources/same-chunk", func(t *testing.T) { run(t, true, false, false) })
	t.Run("with-resources/resources-moved-to-partial", func(t *testing.T) { run(t, true, true, false) })
	t.Run("with-resources/separate-chunk", func(t *testing.T) { run(t, true, false, true) })
}

// TestFindingC16TrailingPartialEntryNewAccount is variant (b): the tampered file carries, as the very last balance
// entry, a PARTIAL entry (ExpectingMoreEntries=true) for an address that does not exist at the producer, with an
// arbitrary balance. Everything else is byte-for-byte the genuine file.
func TestFindingC16TrailingPartialEntryNewAccount(t *testing.T) {
	partitiontest.PartitionTest(t)
	// no t.Parallel: config.Consensus is modified

	p := c16MakeProducer(t, 0)

	sections := c16CloneSections(p.sections)
	idxs, chunks := c16BalanceChunks(t, sections)
	ci := idxs[len(idxs)-1]
	chunk := chunks[ci]

	ghost := ledgertesting.RandomAddress()
	_, exists := p.accts[ghost]
	require.False(t, exists)
	var ghostBase trackerdb.BaseAccountData
	ghostBase.MicroAlgos.Raw = 5_000_000_000_000_000
	ghostBase.UpdateRound = uint64(p.header.BalancesRound)
	chunk.Balances = append(chunk.Balances, encoded.BalanceRecordV6{
		Address:              ghost,
		AccountData:          protocol.Encode(&ghostBase),
		ExpectingMoreEntries: true,
	})
	sections[ci].data = protocol.Encode(chunk)

	res := c16Restore(t, sections, p.label, &p.blk)
	if res.err != nil {
		t.Logf("tampered file rejected at %s: %v", res.stage, res.err)
		return
	}
	if err := c16Switch(t, res.l); err != nil {
		t.Logf("tampered file rejected at the switch (finishBalances): %v", err)
		return
	}
	got, _, _, err := res.l.LookupLatest(ghost)
	require.NoError(t, err)
	sum, rows := c16SumRestoredAlgos(t, res.l)
	if got.MicroAlgos.Raw != 0 || rows != len(p.accts) {
		t.Fatalf("TAMPERED CATCHPOINT ACCEPTED (variant b): label %s verified by VerifyCatchpoint and balances switched in, but the restored ledger "+
			"contains account %v with MicroAlgos=%d which does not exist at the producer; restored accountbase rows=%d (producer %d), "+
			"sum(MicroAlgos)=%d vs label-bound totals.All()=%d",
			p.label, ghost, got.MicroAlgos.Raw, rows, len(p.accts), sum, p.totals.All().Raw)
	}
}
