// Demonstration of the known finding C15/R15.1 (place in ledger/store/trackerdb/ and run
// `go test -run TestC15KvLeafCollision ./ledger/store/trackerdb/`): on the unchanged tree two
// different ledger states give the same trie leaf, i.e. this test FAILS.
package trackerdb

import (
	"bytes"
	"testing"

	"github.com/algorand/avm-abi/apps"
)

func TestC15KvLeafCollision(t *testing.T) {
	// state 1: app 7 has box "ab" = "c";  state 2: app 7 has box "a" = "bc"
	k1, v1 := apps.MakeBoxKey(7, "ab"), []byte("c")
	k2, v2 := apps.MakeBoxKey(7, "a"), []byte("bc")
	h1 := KvHashBuilderV6(k1, v1)
	h2 := KvHashBuilderV6(k2, v2)
	if bytes.Equal(h1, h2) {
		t.Fatalf("two different (box name, box value) pairs hash to the same balances-trie leaf %x: the catchpoint label does not distinguish the two states", h1)
	}
}
