// Demonstration of the known finding C40/R40.6 (place in data/transactions/ and run
// `go test -run TestC40HeartbeatPointerEncoding ./data/transactions/`): on the unchanged tree the
// generated and the reflection encoder disagree, i.e. this test FAILS.
package transactions

import (
	"bytes"
	"testing"

	"github.com/algorand/go-algorand/protocol"
)

func TestC40HeartbeatPointerEncoding(t *testing.T) {
	// a transaction whose HeartbeatTxnFields pointer is non-nil but points to an all-zero struct
	tx := Transaction{Type: protocol.HeartbeatTx, HeartbeatTxnFields: &HeartbeatTxnFields{}}
	gen := protocol.Encode(&tx)
	refl := protocol.EncodeReflect(&tx)
	if !bytes.Equal(gen, refl) {
		t.Fatalf("generated encoder: %x\nreflection encoder: %x\nthe generated code omits the `hb` key only when the pointer is nil, go-codec (RecursiveEmptyCheck) also when it points to an empty struct", gen, refl)
	}
}
