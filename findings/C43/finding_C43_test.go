// Copyright (C) 2019-2026 Algorand Foundation Ltd.
// This file is part of go-algorand
//
// go-algorand is free software: you can redistribute it and/or modify
// it under the terms of the GNU Affero General Public License as
// published by the Free Software Foundation, either version 3 of the
// License, or (at your option) any later version.
//
// go-algorand is distributed in the hope that it will be useful,
// but WITHOUT ANY WARRANTY; without even the implied warranty of
// MERCHANTABILITY or FITNESS FOR A PARTICULAR PURPOSE.  See the
// GNU Affero General Public License for more details.
//
// You should have received a copy of the GNU Affero General Public License
// along with go-algorand.  If not, see <https://www.gnu.org/licenses/>.

package network

// Finding C43: "Once a duplicate-safe message has been delivered, the same
// message from any peer is not delivered again within the filter's retention
// window."
//
// The mechanism is messageFilter.CheckIncomingMessage, consulted from
// wsPeer.readLoop when wp.incomingMsgFilter != nil && dedupSafeTag(tag).
// WebsocketNetwork hands its (config-gated) filter to every wsPeer it builds.
// P2PNetwork builds its wsPeer values in baseWsStreamHandler without a filter,
// so EnableIncomingMessageFilter=true has no effect on a P2PNetwork node (nor on
// the p2p half of a HybridP2PNetwork node).
//
// Topology used by every case: node A has exactly two peers, B and C, which are
// not connected to each other. B and C each broadcast the very same agreement
// vote (tag AV, the only dedup-safe tag that travels over wsPeer streams in
// P2PNetwork; TX goes through GossipSub). A's AV handler counts deliveries.

import (
	"context"
	"sync"
	"testing"
	"time"

	"github.com/libp2p/go-libp2p/core/peer"
	"github.com/stretchr/testify/require"

	"github.com/algorand/go-algorand/config"
	algocrypto "github.com/algorand/go-algorand/crypto"
	"github.com/algorand/go-algorand/logging"
	"github.com/algorand/go-algorand/network/phonebook"
	"github.com/algorand/go-algorand/protocol"
	"github.com/algorand/go-algorand/test/partitiontest"
)

// c43Vote builds a syntactically valid (vpack-compressible) agreement vote whose
// bytes are unique per rnd. It is far below messageFilterSize, so the
// *outgoing* filter / MsgDigestSkipTag machinery is never involved and cannot
// be the thing that suppresses the second copy.
func c43Vote(rnd uint64) []byte {
	vote := map[string]any{
		"cred": map[string]any{"pf": algocrypto.VrfProof{1}},
		"r":    map[string]any{"rnd": rnd, "snd": [32]byte{3}},
		"sig": map[string]any{
			"p": [32]byte{4}, "p1s": [64]byte{5}, "p2": [32]byte{6},
			"p2s": [64]byte{7}, "ps": [64]byte{}, "s": [64]byte{9},
		},
	}
	return protocol.EncodeReflect(vote)
}

// c43Recorder is an AV handler that counts deliveries per distinct payload.
type c43Recorder struct {
	mu     sync.Mutex
	counts map[string]int
}

func (r *c43Recorder) Handle(msg IncomingMessage) OutgoingMessage {
	r.mu.Lock()
	defer r.mu.Unlock()
	if r.counts == nil {
		r.counts = make(map[string]int)
	}
	r.counts[string(msg.Data)]++
	return OutgoingMessage{Action: Ignore}
}

func (r *c43Recorder) count(data []byte) int {
	r.mu.Lock()
	defer r.mu.Unlock()
	return r.counts[string(data)]
}

type c43Scenario struct {
	// register installs the AV handler on node A.
	register func([]TaggedMessageHandler)
	// peersOfA returns A's live wsPeer objects (across all sub-networks).
	peersOfA func() []*wsPeer
	// sendB and sendC broadcast an AV message from B / C.
	sendB, sendC func(data []byte) error
}

// c43Run drives the scenario and returns how many times A's handler got the
// duplicated message. It is deterministic in the following sense:
//   - it positively waits until BOTH copies of the duplicate have been read off
//     the wire by A (per-peer avMessageCount, incremented in readLoop before the
//     filter is consulted);
//   - each sender follows the duplicate with a unique sentinel on the same
//     ordered stream, and the test waits until both sentinels reached the
//     handler. A copy of the duplicate that was not filtered was put on A's
//     readBuffer before the sentinel of the same peer;
//   - a final bounded poll lets a handler goroutine that dequeued the second
//     copy finish; it ends early as soon as a second delivery is observed.
func c43Run(t *testing.T, sc c43Scenario) int {
	rec := &c43Recorder{}
	sc.register([]TaggedMessageHandler{{Tag: protocol.AgreementVoteTag, MessageHandler: rec}})

	require.Len(t, sc.peersOfA(), 2, "node A must have exactly two peers")

	dup := c43Vote(1000)
	sentinelB := c43Vote(2001)
	sentinelC := c43Vote(2002)

	require.NoError(t, sc.sendB(dup))
	require.NoError(t, sc.sendC(dup))
	require.NoError(t, sc.sendB(sentinelB))
	require.NoError(t, sc.sendC(sentinelC))

	// both of A's peers have read two AV messages each: the duplicate and the sentinel
	require.Eventually(t, func() bool {
		peers := sc.peersOfA()
		if len(peers) != 2 {
			return false
		}
		for _, p := range peers {
			if p.avMessageCount.Load() < 2 {
				return false
			}
		}
		return true
	}, 10*time.Second, 10*time.Millisecond, "A did not receive both copies on the wire")

	// both sentinels were delivered to the handler
	require.Eventually(t, func() bool {
		return rec.count(sentinelB) == 1 && rec.count(sentinelC) == 1
	}, 10*time.Second, 10*time.Millisecond, "sentinels were not delivered")

	require.GreaterOrEqual(t, rec.count(dup), 1, "the duplicate-safe message was never delivered at all")

	// settle: stop early if the second delivery shows up
	deadline := time.Now().Add(500 * time.Millisecond)
	for time.Now().Before(deadline) && rec.count(dup) < 2 {
		time.Sleep(5 * time.Millisecond)
	}
	return rec.count(dup)
}

func c43WsPeers(wn *WebsocketNetwork) []*wsPeer {
	peers, _ := wn.peerSnapshot(nil)
	return peers
}

func c43P2PPeers(n *P2PNetwork) []*wsPeer {
	peers, _ := n.peerSnapshot(nil)
	return peers
}

func c43WsConfig(filter bool) config.Local {
	cfg := defaultConfig
	cfg.EnableIncomingMessageFilter = filter
	return cfg
}

func c43P2PConfig(filter bool) config.Local {
	cfg := config.GetDefaultLocal()
	cfg.DNSBootstrapID = "" // phonebook only
	cfg.NetAddress = "127.0.0.1:0"
	cfg.EnableIncomingMessageFilter = filter
	return cfg
}

// c43WsTriangle starts WebsocketNetwork nodes B -> A <- C.
func c43WsTriangle(t *testing.T, cfg config.Local) c43Scenario {
	netA := makeTestWebsocketNodeWithConfig(t, cfg, testWebsocketLogNameOption{"A"})
	require.NoError(t, netA.Start())
	t.Cleanup(func() { netStop(t, netA, "A") })
	addrA, postListen := netA.Address()
	require.True(t, postListen)

	mk := func(name string) *WebsocketNetwork {
		n := makeTestWebsocketNodeWithConfig(t, cfg, testWebsocketLogNameOption{name})
		n.config.GossipFanout = 1
		n.phonebook.ReplacePeerList([]string{addrA}, "default", phonebook.RelayRole)
		require.NoError(t, n.Start())
		t.Cleanup(func() { netStop(t, n, name) })
		return n
	}
	netB := mk("B")
	netC := mk("C")

	readyTimeout := time.NewTimer(5 * time.Second)
	waitReady(t, netA, readyTimeout.C)
	waitReady(t, netB, readyTimeout.C)
	waitReady(t, netC, readyTimeout.C)
	require.Eventually(t, func() bool {
		return len(c43WsPeers(netA)) == 2 && len(c43WsPeers(netB)) == 1 && len(c43WsPeers(netC)) == 1
	}, 10*time.Second, 20*time.Millisecond)

	return c43Scenario{
		register: netA.RegisterHandlers,
		peersOfA: func() []*wsPeer { return c43WsPeers(netA) },
		sendB: func(d []byte) error {
			return netB.Broadcast(context.Background(), protocol.AgreementVoteTag, d, true, nil)
		},
		sendC: func(d []byte) error {
			return netC.Broadcast(context.Background(), protocol.AgreementVoteTag, d, true, nil)
		},
	}
}

func c43P2PAddr(t *testing.T, n *P2PNetwork) string {
	info := n.service.AddrInfo()
	addrs, err := peer.AddrInfoToP2pAddrs(&info)
	require.NoError(t, err)
	require.NotEmpty(t, addrs)
	return addrs[0].String()
}

// c43P2PClient starts a non-listening P2PNetwork node with a single phonebook entry.
func c43P2PClient(t *testing.T, name string, cfg config.Local, relayAddr string) *P2PNetwork {
	cfg.NetAddress = ""
	cfg.GossipFanout = 1
	log := logging.TestingLog(t).With("name", name)
	n, err := NewP2PNetwork(log, cfg, "", []string{relayAddr}, GenesisInfo{genesisID, config.Devtestnet}, &nopeNodeInfo{}, nil, nil)
	require.NoError(t, err)
	require.NoError(t, n.Start())
	t.Cleanup(n.Stop)
	return n
}

// c43P2PTriangle starts P2PNetwork nodes B -> A <- C.
func c43P2PTriangle(t *testing.T, cfg config.Local) c43Scenario {
	log := logging.TestingLog(t)
	netA, err := NewP2PNetwork(log.With("name", "A"), cfg, "", nil, GenesisInfo{genesisID, config.Devtestnet}, &nopeNodeInfo{}, nil, nil)
	require.NoError(t, err)
	require.NoError(t, netA.Start())
	t.Cleanup(netA.Stop)
	addrA := c43P2PAddr(t, netA)

	netB := c43P2PClient(t, "B", cfg, addrA)
	netC := c43P2PClient(t, "C", cfg, addrA)

	require.Eventually(t, func() bool {
		return len(c43P2PPeers(netA)) == 2 && len(c43P2PPeers(netB)) == 1 && len(c43P2PPeers(netC)) == 1
	}, 15*time.Second, 20*time.Millisecond)
	// B and C must only know A
	require.True(t, netB.hasPeer(netA.service.ID()))
	require.True(t, netC.hasPeer(netA.service.ID()))

	return c43Scenario{
		register: netA.RegisterHandlers,
		peersOfA: func() []*wsPeer { return c43P2PPeers(netA) },
		sendB: func(d []byte) error {
			return netB.Broadcast(context.Background(), protocol.AgreementVoteTag, d, true, nil)
		},
		sendC: func(d []byte) error {
			return netC.Broadcast(context.Background(), protocol.AgreementVoteTag, d, true, nil)
		},
	}
}

// c43HybridTriangle starts a HybridP2PNetwork relay A with a WebsocketNetwork
// peer B (on A's ws half) and a P2PNetwork peer C (on A's p2p half).
func c43HybridTriangle(t *testing.T, filter bool) c43Scenario {
	cfgA := config.GetDefaultLocal()
	cfgA.DNSBootstrapID = ""
	cfgA.EnableP2PHybridMode = true
	cfgA.NetAddress = "127.0.0.1:0"
	cfgA.P2PHybridNetAddress = "127.0.0.1:0"
	cfgA.PublicAddress = testingPublicAddress
	cfgA.EnableIncomingMessageFilter = filter
	log := logging.TestingLog(t)
	genesisInfo := GenesisInfo{genesisID, config.Devtestnet}
	netA, err := NewHybridP2PNetwork(log.With("name", "A"), cfgA, "", nil, genesisInfo, &nopeNodeInfo{}, nil)
	require.NoError(t, err)
	require.NoError(t, netA.Start())
	t.Cleanup(netA.Stop)

	wsAddrA, postListen := netA.wsNetwork.Address()
	require.True(t, postListen)
	p2pAddrA := c43P2PAddr(t, netA.p2pNetwork)

	netB := makeTestWebsocketNodeWithConfig(t, c43WsConfig(filter), testWebsocketLogNameOption{"B"})
	netB.config.GossipFanout = 1
	netB.phonebook.ReplacePeerList([]string{wsAddrA}, "default", phonebook.RelayRole)
	require.NoError(t, netB.Start())
	t.Cleanup(func() { netStop(t, netB, "B") })

	netC := c43P2PClient(t, "C", c43P2PConfig(filter), p2pAddrA)

	peersOfA := func() []*wsPeer {
		return append(c43WsPeers(netA.wsNetwork), c43P2PPeers(netA.p2pNetwork)...)
	}
	require.Eventually(t, func() bool {
		return len(c43WsPeers(netA.wsNetwork)) == 1 && len(c43P2PPeers(netA.p2pNetwork)) == 1 &&
			len(c43WsPeers(netB)) == 1 && len(c43P2PPeers(netC)) == 1
	}, 15*time.Second, 20*time.Millisecond)

	return c43Scenario{
		register: netA.RegisterHandlers,
		peersOfA: peersOfA,
		sendB: func(d []byte) error {
			return netB.Broadcast(context.Background(), protocol.AgreementVoteTag, d, true, nil)
		},
		sendC: func(d []byte) error {
			return netC.Broadcast(context.Background(), protocol.AgreementVoteTag, d, true, nil)
		},
	}
}

const c43FailFmt = "C43 violated on %s: with EnableIncomingMessageFilter=true the same duplicate-safe AV message, " +
	"sent by two different peers, was handed to node A's handler %d times (the property demands exactly 1)"

// TestFindingC43_WsControl: WebsocketNetwork de-duplicates across peers when
// the filter is enabled. This is the control for the test method.
func TestFindingC43_WsControl(t *testing.T) {
	partitiontest.PartitionTest(t)

	got := c43Run(t, c43WsTriangle(t, c43WsConfig(true)))
	require.Equalf(t, 1, got, c43FailFmt, "WebsocketNetwork", got)
}

// TestFindingC43_WsFilterOffDeliversTwice shows that the method can observe a
// double delivery: with the (default) EnableIncomingMessageFilter=false the
// very same scenario yields two handler invocations on WebsocketNetwork.
func TestFindingC43_WsFilterOffDeliversTwice(t *testing.T) {
	partitiontest.PartitionTest(t)

	got := c43Run(t, c43WsTriangle(t, c43WsConfig(false)))
	require.Equal(t, 2, got, "discriminating power: without a filter both copies must reach the handler")
}

// TestFindingC43_P2P: the same topology and the same configuration on P2PNetwork.
func TestFindingC43_P2P(t *testing.T) {
	partitiontest.PartitionTest(t)

	got := c43Run(t, c43P2PTriangle(t, c43P2PConfig(true)))
	require.Equalf(t, 1, got, c43FailFmt, "P2PNetwork", got)
}

// TestFindingC43_Hybrid: one copy arrives through the ws half, the other
// through the p2p half of a HybridP2PNetwork node.
func TestFindingC43_Hybrid(t *testing.T) {
	partitiontest.PartitionTest(t)

	got := c43Run(t, c43HybridTriangle(t, true))
	require.Equalf(t, 1, got, c43FailFmt, "HybridP2PNetwork (ws peer + p2p peer)", got)
}
