// Copyright (C) 2019-2026 Algorand Foundation Ltd.
// This file is part of go-algorand
//
// go-algorand is free software: you can redistribute it and/or modify
// it under the terms of the GNU Affero General Public License as
// published by the Free Software Foundation, either version 3 of the
// License, or (at your option) any later version.
//
// go-algorand is distributed in the hope that it will be useful,
// but WITHOUT ANY WARRANTY; without even the implied warranty of
// MERCHANTABILITY or FITNESS FOR A PARTICULAR PURPOSE.  See the
// GNU Affero General Public License for more details.
//
// You should have received a copy of the GNU Affero General Public License
// along with go-algorand.  If not, see <https://www.gnu.org/licenses/>.

package ledger

import (
	"fmt"
	"testing"

	"github.com/stretchr/testify/require"

	"github.com/algorand/go-algorand/config"
	"github.com/algorand/go-algorand/data/basics"
	"github.com/algorand/go-algorand/data/transactions"
	"github.com/algorand/go-algorand/data/txntest"
	ledgertesting "github.com/algorand/go-algorand/ledger/testing"
	"github.com/algorand/go-algorand/protocol"
	"github.com/algorand/go-algorand/test/partitiontest"
)

// Property C21: after every committed transaction group, every modified
// account (other than the fee sink, rewards pool and state-proof sender) is
// either fully closed or holds at least the minimum balance implied by its
// assets, applications, state schema and boxes.
//
// The oracle below does NOT trust the cached totals in the account record
// (TotalAppSchema, TotalExtraAppPages). It recomputes the requirement from the
// resources that actually exist in the committed state.

// c21ImpliedMinBalance recomputes the balance requirement of addr from the
// resources found in the ledger. `sponsored` lists apps, created by someone
// else, that must be inspected to see whether addr is recorded as the account
// on the hook for their global schema / extra pages (AppParams.SizeSponsor).
func c21ImpliedMinBalance(t *testing.T, l *Ledger, proto config.ConsensusParams, addr basics.Address, sponsored []basics.AppIndex) uint64 {
	t.Helper()
	ad := lookup(t, l, addr)

	var schema basics.StateSchema
	var pages uint64
	for _, ap := range ad.AppParams {
		// the creator pays for the globals and pages, unless another account took that over
		if ap.SizeSponsor.IsZero() || ap.SizeSponsor == addr {
			schema = schema.AddSchema(ap.GlobalStateSchema)
			pages += uint64(ap.ExtraProgramPages)
		}
	}
	for _, ls := range ad.AppLocalStates {
		schema = schema.AddSchema(ls.Schema)
	}
	for _, aid := range sponsored {
		creator, ok, err := l.GetCreator(basics.CreatableIndex(aid), basics.AppCreatable)
		require.NoError(t, err)
		if !ok || creator == addr {
			continue // deleted, or already counted above
		}
		res, err := l.LookupApplication(l.Latest(), creator, aid)
		require.NoError(t, err)
		if res.AppParams != nil && res.AppParams.SizeSponsor == addr {
			schema = schema.AddSchema(res.AppParams.GlobalStateSchema)
			pages += uint64(res.AppParams.ExtraProgramPages)
		}
	}

	return basics.MinBalance(proto.BalanceRequirements(),
		uint64(len(ad.Assets)),
		schema,
		uint64(len(ad.AppParams)), uint64(len(ad.AppLocalStates)),
		pages,
		ad.TotalBoxes, ad.TotalBoxBytes).Raw
}

// c21History plays a fixed history in which an account that sponsors the
// global schema of somebody else's app closes itself out. After every group
// that the ledger commits, the property is asserted for every participant.
//
// When sponsorAware is false, the oracle only counts resources that live in
// the account itself (its own apps, opt-ins, assets, boxes): a lower bound of
// the real requirement that does not depend on any reading of "SizeSponsor".
func c21History(t *testing.T, sponsorAware bool) {
	genBalances, addrs, _ := ledgertesting.NewTestGenesis()
	cfg := config.GetDefaultLocal()
	cv := protocol.ConsensusFuture
	proto := config.Consensus[cv]
	require.True(t, proto.AppSizeUpdates)

	dl := NewDoubleLedger(t, genBalances, cv, cfg)
	defer dl.Close()

	funder, creator, friend, deleter := addrs[0], addrs[1], addrs[2], addrs[3]
	sponsor := ledgertesting.RandomAddress() // a plain, offline, brand new account
	participants := []basics.Address{funder, creator, friend, deleter, sponsor}
	var watched []basics.AppIndex

	step := 0
	// commit tries to get the group into a block. A group the evaluator
	// rejects is simply not part of the history. Either way, the property must
	// hold on the committed state.
	commit := func(what string, txns ...*txntest.Txn) bool {
		t.Helper()
		step++
		for _, tx := range txns {
			tx.Note = []byte(fmt.Sprintf("c21-%d", step)) // keep txids distinct
		}
		dl.beginBlock()
		err := txgroup(t, dl.generator, dl.eval, txns...)
		dl.endBlock()
		if err != nil {
			t.Logf("step %d (%s) rejected: %v", step, what, err)
		}

		for _, addr := range participants {
			ad := lookup(t, dl.generator, addr)
			if ad.MsgIsZero() {
				continue // fully closed
			}
			var apps []basics.AppIndex
			if sponsorAware {
				apps = watched
			}
			need := c21ImpliedMinBalance(t, dl.generator, proto, addr, apps)
			require.GreaterOrEqual(t, ad.MicroAlgos.Raw, need,
				"after step %d (%s): account %v holds %d but its assets/apps/schema/boxes imply a minimum balance of %d (account record claims %d)",
				step, what, addr, ad.MicroAlgos.Raw, need, ad.MinBalance(proto.BalanceRequirements()).Raw)
		}
		return err == nil
	}

	tenSlices := basics.StateSchema{NumByteSlice: 10}
	slicesCost := 10 * (proto.SchemaMinBalancePerEntry + proto.SchemaBytesMinBalance)

	require.True(t, commit("fund sponsor",
		&txntest.Txn{Type: "pay", Sender: funder, Receiver: sponsor, Amount: 10_000_000}))

	// creator makes app A, which approves everything and has no globals
	appA := dl.createApp(creator, main(""))
	watched = append(watched, appA)

	// sponsor grows A's global schema, and so takes on the balance requirement for it
	require.True(t, commit("sponsor resizes A",
		&txntest.Txn{
			Type:              "appl",
			Sender:            sponsor,
			ApplicationID:     appA,
			OnCompletion:      transactions.UpdateApplicationOC,
			ApprovalProgram:   main(""),
			GlobalStateSchema: tenSlices,
		}))
	require.Equal(t, proto.MinBalance+slicesCost,
		lookup(t, dl.generator, sponsor).MinBalance(proto.BalanceRequirements()).Raw)
	ap, err := dl.generator.LookupApplication(dl.generator.Latest(), creator, appA)
	require.NoError(t, err)
	require.Equal(t, sponsor, ap.AppParams.SizeSponsor)
	require.Equal(t, tenSlices, ap.AppParams.GlobalStateSchema)

	// sponsor closes out to friend, who hands 0.3 algos straight back, in one
	// group. The sponsor is NOT closed when the group commits: it holds 0.3
	// algos, and A still names it as the account paying for A's 10 byteslices
	// (0.1 base + 0.5 for the schema).
	commit("sponsor closes and is refunded",
		&txntest.Txn{Type: "pay", Sender: sponsor, CloseRemainderTo: friend},
		&txntest.Txn{Type: "pay", Sender: friend, Receiver: sponsor, Amount: 300_000})

	commit("sponsor is topped up",
		&txntest.Txn{Type: "pay", Sender: friend, Receiver: sponsor, Amount: 1_000_000})

	// sponsor creates its own app B with 10 byteslices of global schema
	commit("sponsor creates B",
		&txntest.Txn{
			Type:              "appl",
			Sender:            sponsor,
			ApprovalProgram:   main(""),
			GlobalStateSchema: tenSlices,
		})
	sad := lookup(t, dl.generator, sponsor)
	require.Len(t, sad.AppParams, 1)

	// anyone deletes A. The schema A's sponsor was on the hook for is released.
	commit("A is deleted",
		&txntest.Txn{
			Type:          "appl",
			Sender:        deleter,
			ApplicationID: appA,
			OnCompletion:  transactions.DeleteApplicationOC,
		})

	// sponsor withdraws down to base + one created app, as if B had no globals at all.
	sad = lookup(t, dl.generator, sponsor)
	keep := proto.MinBalance + proto.AppFlatParamsMinBalance
	fee := proto.MinTxnFee
	require.Greater(t, sad.MicroAlgos.Raw, keep+fee)
	commit("sponsor withdraws",
		&txntest.Txn{Type: "pay", Sender: sponsor, Receiver: friend,
			Amount: sad.MicroAlgos.Raw - keep - fee, Fee: fee})
}

// TestC21SponsorCloseOwnResources fails, on unmodified code, at the last step:
// the sponsor owns app B with a 10 byteslice global schema, nobody else pays
// for it, and the sponsor has been allowed to drop to 0.2 algos.
func TestC21SponsorCloseOwnResources(t *testing.T) {
	partitiontest.PartitionTest(t)
	t.Parallel()
	c21History(t, false)
}

// TestC21SponsorCloseSponsored fails, on unmodified code, as soon as the
// sponsor has closed and reopened: it is still the recorded SizeSponsor of A,
// but its balance requirement for A's schema has vanished.
func TestC21SponsorCloseSponsored(t *testing.T) {
	partitiontest.PartitionTest(t)
	t.Parallel()
	c21History(t, true)
}
