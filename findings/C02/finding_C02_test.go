// Finding C02: a restart that restores crash state overwrites the persisted
// crash state with a zero-valued one (Service.persistRouter/persistStatus/
// persistActions are never initialised from the restored state), so a second
// crash makes the node forget the votes it already cast in the current
// (round, period, step) and it may vote a different value.
//
// Both tests drive the real Service (mainLoop, demuxLoop, pseudonode,
// asyncPersistenceLoop, crash DB) with the in-package test ledger / network /
// clock scaffolding; synchronisation is via the activityMonitor (no sleeps).

package agreement

import (
	"bytes"
	"context"
	"database/sql"
	"fmt"
	"sort"
	"strings"
	"sync"
	"testing"
	"time"

	"github.com/stretchr/testify/require"

	"github.com/algorand/go-algorand/config"
	"github.com/algorand/go-algorand/data/basics"
	"github.com/algorand/go-algorand/data/bookkeeping"
	"github.com/algorand/go-algorand/logging"
	"github.com/algorand/go-algorand/protocol"
	"github.com/algorand/go-algorand/test/partitiontest"
	"github.com/algorand/go-algorand/util/db"
	"github.com/algorand/go-algorand/util/timers"
)

// c02Clock is the testingClock, except that Zero/Decode hand back the very same
// handle, so that the test can still fire timeouts after a service restored
// its clock from the crash DB (testingClock.Decode returns a fresh, unreachable clock).
type c02Clock struct{ *testingClock }

func (c c02Clock) Zero() timers.Clock[TimeoutType] {
	c.testingClock.Zero()
	return c
}

func (c c02Clock) Decode([]byte) (timers.Clock[TimeoutType], error) {
	return c, nil
}

// c02BlockFactory assembles an (otherwise empty) block carrying the given
// timestamp; a node that restarts and re-assembles gets a different block, as
// a real node does (wall-clock timestamp, different transaction pool).
type c02BlockFactory struct{ stamp int64 }

func (f c02BlockFactory) AssembleBlock(r basics.Round, _ []basics.Address) (UnfinishedBlock, error) {
	return testValidatedBlock{Inside: bookkeeping.Block{BlockHeader: bookkeeping.BlockHeader{Round: r, TimeStamp: f.stamp}}}, nil
}

type c02VoteKey struct {
	Sender basics.Address
	Round  round
	Period period
	Step   step
}

func c02StepName(s step) string {
	switch s {
	case propose:
		return "propose"
	case soft:
		return "soft"
	case cert:
		return "cert"
	default:
		return fmt.Sprintf("step-%d", s)
	}
}

func (k c02VoteKey) String() string {
	return fmt.Sprintf("(sender %.8s.., round %d, period %d, step %d)", k.Sender.String(), k.Round, k.Period, k.Step)
}

// c02Recorder records every vote the node hands to the network.
type c02Recorder struct {
	mu     sync.Mutex
	phase  string
	values map[c02VoteKey][]proposalValue // distinct values, in order of first emission
	trail  []string
}

func (r *c02Recorder) setPhase(p string) {
	r.mu.Lock()
	defer r.mu.Unlock()
	r.phase = p
}

func (r *c02Recorder) record(uv unauthenticatedVote, via string) {
	r.mu.Lock()
	defer r.mu.Unlock()
	k := c02VoteKey{Sender: uv.R.Sender, Round: uv.R.Round, Period: uv.R.Period, Step: uv.R.Step}
	r.trail = append(r.trail, fmt.Sprintf("[%s] %s vote %v -> block %.10s (via %s)", r.phase, c02StepName(uv.R.Step), k, uv.R.Proposal.BlockDigest.String(), via))
	for _, v := range r.values[k] {
		if v == uv.R.Proposal {
			return
		}
	}
	r.values[k] = append(r.values[k], uv.R.Proposal)
}

func (r *c02Recorder) intercept(params multicastParams) multicastParams {
	switch params.tag {
	case protocol.AgreementVoteTag:
		var uv unauthenticatedVote
		if err := protocol.DecodeStream(bytes.NewBuffer(params.data), &uv); err != nil {
			panic(err)
		}
		r.record(uv, "vote msg")
	case protocol.ProposalPayloadTag:
		var tp transmittedPayload
		if err := protocol.DecodeStream(bytes.NewBuffer(params.data), &tp); err != nil {
			panic(err)
		}
		if tp.PriorVote != (unauthenticatedVote{}) {
			r.record(tp.PriorVote, "proposal msg")
		}
	}
	return params
}

func (r *c02Recorder) snapshot() (map[c02VoteKey][]proposalValue, []string) {
	r.mu.Lock()
	defer r.mu.Unlock()
	vals := make(map[c02VoteKey][]proposalValue)
	for k, v := range r.values {
		vals[k] = append([]proposalValue(nil), v...)
	}
	return vals, append([]string(nil), r.trail...)
}

type c02LogBuffer struct {
	mu  sync.Mutex
	buf bytes.Buffer
}

func (b *c02LogBuffer) Write(p []byte) (int, error) {
	b.mu.Lock()
	defer b.mu.Unlock()
	return b.buf.Write(p)
}

func (b *c02LogBuffer) linesContaining(subs ...string) (out []string) {
	b.mu.Lock()
	defer b.mu.Unlock()
	for _, line := range strings.Split(b.buf.String(), "\n") {
		for _, s := range subs {
			if strings.Contains(line, s) {
				out = append(out, line)
				break
			}
		}
	}
	return
}

// c02Env is one node (one participation key holding 1/3 of the online stake,
// so it can never reach a quorum alone), with everything that survives a
// process crash: crash DB, ledger, keys. Services are created/destroyed on top.
type c02Env struct {
	t        *testing.T
	accessor db.Accessor
	ledger   Ledger
	keys     KeyManager
	am       *activityMonitor // of the currently running boot
	rec      *c02Recorder
	logs     *c02LogBuffer
	log      logging.Logger
	sender   basics.Address
}

func makeC02Env(t *testing.T) *c02Env {
	const numAccounts = 3
	accounts, balances := createTestAccountsAndBalances(t, numAccounts, (&[32]byte{})[:])

	env := &c02Env{t: t}
	var err error
	env.accessor, err = db.MakeAccessor(t.Name()+"_crash.db", false, true)
	require.NoError(t, err)
	t.Cleanup(env.accessor.Close)

	env.ledger = makeTestLedger(balances)
	env.keys = makeRecordingKeyManager(accounts[0:1]) // this node only holds key 0
	env.sender = accounts[0].Parent

	env.rec = &c02Recorder{values: make(map[c02VoteKey][]proposalValue)}

	env.logs = &c02LogBuffer{}
	env.log = logging.NewLogger()
	env.log.SetOutput(env.logs)
	env.log.SetLevel(logging.Info)
	return env
}

// start boots a new Service "process" on the surviving crash DB / ledger / keys.
// Everything else (network endpoint, clock, coservice/activity monitors) is
// process-local and created afresh, as after a real process restart.
func (env *c02Env) start(phase string, stamp int64) (*Service, c02Clock) {
	env.rec.setPhase(phase)

	net := makeTestingNetwork(1, 1000, testBlockValidator{}) // no peers: nobody can help this node to a quorum
	net.intercept(env.rec.intercept)
	env.am = makeActivityMonitor()
	monitor := net.monitors[nodeID(0)]
	monitor.coserviceListener = env.am.coserviceListener(nodeID(0))

	clock := c02Clock{makeTestingClock(monitor)}
	s, err := MakeService(Parameters{
		Logger:         env.log.WithFields(logging.Fields{"Phase": phase}),
		Ledger:         env.ledger,
		Network:        net.testingNetworkEndpoint(nodeID(0)),
		KeyManager:     env.keys,
		BlockValidator: testBlockValidator{},
		BlockFactory:   c02BlockFactory{stamp: stamp},
		Clock:          clock,
		Accessor:       env.accessor,
		Local:          config.Local{}, // cadaver disabled
		RandomSource:   &testingRand{},
	})
	require.NoError(env.t, err)
	s.monitor = monitor
	monitor.inc(demuxCoserviceType) // same convention as setupAgreement: demux is "busy" until it first blocks
	s.Start()
	env.settle()
	return s, clock
}

// settle waits until the node has processed everything it can: every
// coservice (demux, pseudonode incl. the wait for the crash-DB write, crypto
// verifier, clock) is idle. The caller must have made the monitor busy
// synchronously beforehand (monitor.inc / clock.prepareToFire).
//
// It does not pair activity/quiet tokens like activityMonitor.waitForActivity +
// waitForQuiet do: demux.next may report a momentary quiet while a drained
// pseudonode channel is not closed yet (quiet, activity, quiet), which would
// leave stale tokens behind. Instead every quiet token is re-validated against
// the monitor's busy flag.
func (env *c02Env) settle() {
	timeout := time.After(30 * time.Second)
	for {
		select {
		case <-env.am.quiet:
		case <-timeout:
			env.am.dump()
			require.FailNow(env.t, "timed out waiting for the service to go idle")
		}
		env.am.Lock()
		busy := env.am.busy
		env.am.Unlock()
		if !busy {
			return
		}
	}
}

// crash simulates a process crash: the service is torn down while the round is
// unfinished. (Shutdown performs no crash-DB write.)
func (env *c02Env) crash(s *Service) {
	s.Shutdown()
}

func (env *c02Env) fire(clock c02Clock, tt TimeoutType) {
	clock.prepareToFire()
	clock.fire(tt)
	env.settle()
}

type c02DiskState struct {
	found   bool
	raw     []byte
	router  rootRouter
	player  player
	actions []action
}

func (d c02DiskState) String() string {
	if !d.found {
		return "<no row>"
	}
	as := make([]string, 0, len(d.actions))
	for _, a := range d.actions {
		as = append(as, a.ComparableStr())
	}
	rounds := make([]int, 0)
	for r := range d.router.Children {
		rounds = append(rounds, int(r))
	}
	sort.Ints(rounds)
	return fmt.Sprintf("player{Round:%d Period:%d Step:%d(%s) Deadline:%v} router.Children(rounds)=%v actions=%v (row %d bytes)",
		d.player.Round, d.player.Period, d.player.Step, c02StepName(d.player.Step), d.player.Deadline, rounds, as, len(d.raw))
}

// readCrashRow reads and decodes the `Service` row of the crash DB without side effects.
func (env *c02Env) readCrashRow() (d c02DiskState) {
	err := env.accessor.Atomic(func(ctx context.Context, tx *sql.Tx) error {
		var n int
		if err := tx.QueryRow("select count(*) from Service").Scan(&n); err != nil {
			return err
		}
		if n == 0 {
			return nil
		}
		d.found = true
		return tx.QueryRow("select data from Service").Scan(&d.raw)
	})
	require.NoError(env.t, err)
	if !d.found {
		return
	}
	_, d.router, d.player, d.actions, err = decode(d.raw, c02Clock{makeTestingClock(nil)}, serviceLogger{Logger: env.log}, false)
	require.NoError(env.t, err)
	return
}

func c02AttestFor(actions []action, s step) (pseudonodeAction, bool) {
	for _, a := range actions {
		if pa, ok := a.(pseudonodeAction); ok && pa.T == attest && pa.Step == s {
			return pa, true
		}
	}
	return pseudonodeAction{}, false
}

// runUntilSoftVotePersisted boots the first service, lets it propose, fires the
// filter timeout so it soft-votes, and returns the crash state it persisted for that vote.
func (env *c02Env) runUntilSoftVotePersisted(stamp int64) (*Service, c02DiskState, c02VoteKey) {
	t := env.t
	rnd := env.ledger.NextRound()

	s1, clock1 := env.start("boot1", stamp)
	// nothing attested yet => nothing persisted yet
	require.False(t, env.readCrashRow().found, "unexpected crash state before the first attest")

	env.fire(clock1, TimeoutFilter) // -> player.issueSoftVote -> pseudonodeAction{attest, soft} -> persist -> vote released

	first := env.readCrashRow()
	require.True(t, first.found, "no crash state persisted for the soft vote")
	require.Equal(t, rnd, first.player.Round)
	require.Equal(t, period(0), first.player.Period)
	require.Equal(t, cert, first.player.Step)
	require.NotNil(t, first.router.Children[rnd], "persisted router lacks the current round")
	att, ok := c02AttestFor(first.actions, soft)
	require.True(t, ok, "persisted actions lack the attest action: %v", first)

	softKey := c02VoteKey{Sender: env.sender, Round: rnd, Period: 0, Step: soft}
	vals, _ := env.rec.snapshot()
	require.Len(t, vals[softKey], 1, "the node must have released exactly one soft-vote value")
	require.Equal(t, att.Proposal, vals[softKey][0])

	// the node holds 1/3 of the stake: the round cannot finish
	require.Equal(t, rnd, env.ledger.NextRound())
	return s1, first, softKey
}

// (a) After the first restart replays the restored actions, the crash DB must
// still describe the state that led to the already-released vote.
func TestFindingC02RestartKeepsPersistedCrashState(t *testing.T) {
	partitiontest.PartitionTest(t)

	env := makeC02Env(t)
	s1, first, _ := env.runUntilSoftVotePersisted(1000)
	t.Logf("crash DB after boot1 soft vote : %v", first)
	env.crash(s1)

	// restart #1 on the same crash DB: restores state, replays [attest soft], goes idle
	// (no timeout fired, no peer => no new attest can happen).
	s2, _ := env.start("boot2", 1000)
	require.Equal(t, first.player.Round, env.ledger.NextRound(), "round must still be unfinished")
	env.crash(s2)

	second := env.readCrashRow()
	t.Logf("crash DB after boot2 replay    : %v", second)
	for _, l := range env.logs.linesContaining("restored crash state", "persisted state to the database") {
		t.Logf("service log: %s", l)
	}

	require.True(t, second.found)
	rnd := first.player.Round
	require.Equal(t, rnd, second.player.Round, "persisted player round was lost by the restart")
	require.Equal(t, first.player.Period, second.player.Period)
	require.Equal(t, first.player.Step, second.player.Step)
	require.NotNil(t, second.router.Children[rnd], "persisted router was emptied by the restart")
	_, ok := c02AttestFor(second.actions, soft)
	require.True(t, ok, "persisted actions were emptied by the restart")
	require.Equal(t, protocol.Encode(&first.player), protocol.Encode(&second.player), "persisted player changed")
	require.Equal(t, protocol.Encode(&first.router), protocol.Encode(&second.router), "persisted router changed")
}

// (b) Across crash, restart, crash, restart the node must emit at most one
// value per (sender, round, period, step).
func TestFindingC02DoubleCrashEquivocation(t *testing.T) {
	partitiontest.PartitionTest(t)

	env := makeC02Env(t)
	s1, first, softKey := env.runUntilSoftVotePersisted(1000)
	env.crash(s1)

	// restart #1: replays the restored attest (same value, fine) ... and crashes again before any new attest.
	s2, _ := env.start("boot2", 1000)
	env.crash(s2)
	t.Logf("crash DB before boot3: %v", env.readCrashRow())

	// restart #2: same keys, same ledger (round still open), but block assembly now yields a different block.
	s3, clock3 := env.start("boot3", 2000)
	require.Equal(t, first.player.Round, env.ledger.NextRound(), "round must still be unfinished")
	if _, err := clock3.when(TimeoutFilter); err == nil {
		// only a service that (re)started the round from scratch waits for the filter timeout
		t.Logf("boot3 is waiting for a filter timeout in round %d: it restarted the round from scratch", env.ledger.NextRound())
		env.fire(clock3, TimeoutFilter)
	} else {
		t.Logf("boot3 has no filter timeout armed: it resumed the restored (post-soft-vote) state")
	}
	env.crash(s3)

	vals, trail := env.rec.snapshot()
	for _, l := range trail {
		t.Log(l)
	}
	for _, l := range env.logs.linesContaining("restored crash state") {
		t.Logf("service log: %s", l)
	}

	require.NotEmpty(t, vals[softKey])
	keys := make([]c02VoteKey, 0, len(vals))
	for k := range vals {
		keys = append(keys, k)
	}
	sort.Slice(keys, func(i, j int) bool { return keys[i].Step < keys[j].Step })
	for _, k := range keys {
		digests := make([]string, 0)
		for _, v := range vals[k] {
			digests = append(digests, fmt.Sprintf("%.10s", v.BlockDigest.String()))
		}
		t.Logf("%v: %d distinct value(s) %v", k, len(vals[k]), digests)
	}
	// the soft vote is an attest vote: it is the one guarded by persist-before-release
	require.LessOrEqual(t, len(vals[softKey]), 1, "EQUIVOCATION: the same key soft-voted %d different values at %v", len(vals[softKey]), softKey)
	for _, k := range keys {
		require.LessOrEqual(t, len(vals[k]), 1, "EQUIVOCATION: the same key voted %d different values at %v", len(vals[k]), k)
	}
}
