// Copyright (C) 2019-2026 Algorand Foundation Ltd.
// This file is part of go-algorand
//
// go-algorand is free software: you can redistribute it and/or modify
// it under the terms of the GNU Affero General Public License as
// published by the Free Software Foundation, either version 3 of the
// License, or (at your option) any later version.
//
// go-algorand is distributed in the hope that it will be useful,
// but WITHOUT ANY WARRANTY; without even the implied warranty of
// MERCHANTABILITY or FITNESS FOR A PARTICULAR PURPOSE.  See the
// GNU Affero General Public License for more details.
//
// You should have received a copy of the GNU Affero General Public License
// along with go-algorand.  If not, see <https://www.gnu.org/licenses/>.

package ledger

// Investigation C16 (second pass): the kv (box) leaf of the balances merkle trie does not bind where the
// key ends and the value begins.
//
// Property under test:
//   (1) restoring a catchpoint file produced by a node yields a ledger whose boxes equal the producer's, and
//   (2) a file whose contents do not match its label is rejected before the node adopts it.
//
// The producer is a real ledger (DoubleLedger: real block evaluation, real box opcodes, catchpoint tracking
// enabled so that the catchpoint tracker maintains the balances trie incrementally, exactly as on a relay).
// The catchpoint file is written with the repo's own catchpointFileWriter/repackCatchpoint, and the label is
// computed from the PRODUCER's database the same way finishFirstStage/createCatchpoint do. The consumer
// replays the call sequence of catchup/catchpointService.go + catchup/ledgerFetcher.go on a fresh ledger:
//
//	ResetStagingBalances(true); SetLabel(label)
//	for each tar section: ProcessStagingBalances(name, bytes, &progress)
//	BuildMerkleTrie; VerifyCatchpoint(blk); finishBalances (the switch)

import (
	"context"
	"fmt"
	"path/filepath"
	"strings"
	"testing"

	"github.com/stretchr/testify/require"

	"github.com/algorand/avm-abi/apps"
	"github.com/algorand/go-algorand/config"
	"github.com/algorand/go-algorand/crypto"
	"github.com/algorand/go-algorand/crypto/merkletrie"
	"github.com/algorand/go-algorand/data/basics"
	"github.com/algorand/go-algorand/data/bookkeeping"
	"github.com/algorand/go-algorand/data/transactions"
	"github.com/algorand/go-algorand/data/txntest"
	"github.com/algorand/go-algorand/ledger/ledgercore"
	"github.com/algorand/go-algorand/ledger/store/trackerdb"
	ledgertesting "github.com/algorand/go-algorand/ledger/testing"
	"github.com/algorand/go-algorand/logging"
	"github.com/algorand/go-algorand/protocol"
	"github.com/algorand/go-algorand/test/partitiontest"
)

type invC16Box struct{ name, value string }

type invC16Producer struct {
	app      basics.AppIndex
	sections []decodedCatchpointChunkData // content.msgpack, stateProofVerificationContext.msgpack, balances.N.msgpack ...
	label    string                       // computed from the producer's database
	blk      bookkeeping.Block            // the producer's block at the catchpoint round
	kvs      map[string][]byte            // the producer's kvstore at the balances round
}

// invC16MakeProducer runs a real ledger in which one application creates the given boxes, flushes it, writes
// the catchpoint file for the flushed round and derives the label from the producer's own state.
// If deleteLater is given, those boxes are deleted (box_del) after the creations were flushed to the producer's database.
func invC16MakeProducer(t *testing.T, boxes []invC16Box, deleteLater ...string) (p invC16Producer) {
	genBalances, addrs, _ := ledgertesting.NewTestGenesis()
	cfg := config.GetDefaultLocal()
	// track catchpoints (labels only): the catchpoint tracker keeps the balances trie up to date on every flush.
	cfg.CatchpointTracking = config.CatchpointTrackingModeTracked
	proto := protocol.ConsensusFuture
	params := config.Consensus[proto]
	dl := NewDoubleLedger(t, genBalances, proto, cfg)
	t.Cleanup(dl.Close)
	require.True(t, dl.generator.catchpoint.catchpointEnabled())

	p.app = dl.fundedApp(addrs[1], 10_000_000, boxAppSource)
	callBox := txntest.Txn{
		Type:          "appl",
		Sender:        addrs[2],
		ApplicationID: p.app,
	}
	for _, b := range boxes {
		put := callBox.Args("put", b.name, b.value) // box_put: creates the box with exactly this content
		put.Boxes = []transactions.BoxRef{{Index: 0, Name: []byte(b.name)}}
		dl.fullBlock(put)
	}
	pay := txntest.Txn{Type: "pay", Sender: addrs[0], Receiver: addrs[1], Amount: 100000}
	for i := 0; i < 20; i++ {
		dl.fullBlock(pay.Noted(fmt.Sprintf("filler %d", i)))
	}
	testCatchpointFlushRound(dl.generator)
	if len(deleteLater) > 0 {
		remaining := boxes[:0:0]
		for _, b := range boxes {
			deleted := false
			for _, name := range deleteLater {
				deleted = deleted || name == b.name
			}
			if !deleted {
				remaining = append(remaining, b)
			}
		}
		boxes = remaining
		for _, name := range deleteLater {
			del := callBox.Args("delete", name)
			del.Boxes = []transactions.BoxRef{{Index: 0, Name: []byte(name)}}
			dl.fullBlock(del)
		}
		for i := 0; i < 20; i++ {
			dl.fullBlock(pay.Noted(fmt.Sprintf("filler after delete %d", i)))
		}
		testCatchpointFlushRound(dl.generator)
	}

	// what the producer holds at the flushed round.
	for _, b := range boxes {
		v, err := dl.generator.LookupKv(dl.generator.Latest(), apps.MakeBoxKey(uint64(p.app), b.name))
		require.NoError(t, err)
		require.Equal(t, b.value, string(v))
	}

	tmp := t.TempDir()
	dataPath := filepath.Join(tmp, "c16.data")
	filePath := filepath.Join(tmp, "c16.catchpoint.tar.gz")

	rdb := dl.generator.trackerDB()
	var header CatchpointFileHeader
	var biggestChunkLen uint64
	var balancesHash, spHash, oaHash, orpHash crypto.Digest
	p.kvs = make(map[string][]byte)
	err := rdb.Transaction(func(ctx context.Context, tx trackerdb.TransactionScope) (err error) {
		ar, err := tx.MakeAccountsReader()
		if err != nil {
			return err
		}
		accountsRnd, err := ar.AccountsRound()
		if err != nil {
			return err
		}
		// the file, with the repo's writer (same steps as testWriteCatchpoint / generateCatchpointData).
		writer, err := makeCatchpointFileWriter(ctx, params, dataPath, tx, ResourcesPerCatchpointFileChunk, accountsRnd, 0)
		if err != nil {
			return err
		}
		rawSP, err := tx.MakeSpVerificationCtxReader().GetAllSPContexts(ctx)
		if err != nil {
			return err
		}
		var encodedSP []byte
		spHash, encodedSP = crypto.EncodeAndHash(catchpointStateProofVerificationContext{Data: rawSP})
		if err = writer.FileWriteSPVerificationContext(encodedSP); err != nil {
			return err
		}
		for more := true; more; {
			more, err = writer.FileWriteStep(ctx)
			if err != nil {
				return err
			}
		}
		biggestChunkLen = writer.biggestChunkLen
		totals, err := ar.AccountsTotals(ctx, false)
		if err != nil {
			return err
		}
		header = CatchpointFileHeader{
			Version:                CatchpointFileVersionV8,
			BalancesRound:          accountsRnd,
			BlocksRound:            accountsRnd + basics.Round(params.CatchpointLookback),
			Totals:                 totals,
			TotalAccounts:          writer.totalAccounts,
			TotalKVs:               writer.totalKVs,
			TotalOnlineAccounts:    writer.totalOnlineAccounts,
			TotalOnlineRoundParams: writer.totalOnlineRoundParams,
			TotalChunks:            writer.chunkNum,
		}

		// the label ingredients, from the producer's state (finishFirstStage + recordFirstStageInfo):
		// root of the incrementally maintained balances trie, totals, SP contexts hash, online hashes.
		mc, err := tx.MakeMerkleCommitter(false)
		if err != nil {
			return err
		}
		trie, err := merkletrie.MakeTrie(mc, trackerdb.TrieMemoryConfig)
		if err != nil {
			return err
		}
		balancesHash, err = trie.RootHash()
		if err != nil {
			return err
		}
		oaHash, _, err = calculateVerificationHash(ctx, makeCatchpointOrderedOnlineAccountsIterFactory(tx.MakeOrderedOnlineAccountsIter, accountsRnd, params), 0, false)
		if err != nil {
			return err
		}
		orpHash, _, err = calculateVerificationHash(ctx, tx.MakeOnlineRoundParamsIter, 0, false)
		if err != nil {
			return err
		}
		kvs, err := tx.MakeKVsIter(ctx)
		if err != nil {
			return err
		}
		defer kvs.Close()
		for kvs.Next() {
			k, v, err := kvs.KeyValue()
			if err != nil {
				return err
			}
			p.kvs[string(k)] = v
		}
		return nil
	})
	require.NoError(t, err)
	require.Len(t, p.kvs, len(boxes), "the producer's kvstore must hold every box at the flushed round")
	require.False(t, balancesHash.IsZero())

	// the catchpoint round's block. The producer chain is shorter than CatchpointLookback, so (as the existing
	// catchpoint file tests do) a stand-in block header carries the catchpoint round; only its round and digest matter.
	p.blk.BlockHeader.Round = header.BlocksRound
	p.blk.BlockHeader.GenesisID = t.Name()
	p.blk.BlockHeader.CurrentProtocol = proto
	blockDigest := p.blk.Digest()
	p.label = ledgercore.MakeLabel(ledgercore.MakeCatchpointLabelMakerCurrent(header.BlocksRound, &blockDigest, &balancesHash, header.Totals, &spHash, &oaHash, &orpHash))
	header.Catchpoint = p.label
	header.BlockHeaderDigest = blockDigest

	require.NoError(t, repackCatchpoint(context.Background(), header, biggestChunkLen, dataPath, filePath))
	p.sections = readCatchpointFile(t, filePath)
	require.NotEmpty(t, p.sections)
	require.Equal(t, CatchpointContentFileName, p.sections[0].headerName)
	return p
}

// invC16Restore replays the catchpoint service on a fresh ledger. It returns the stage that refused the file
// ("" if the file was adopted) and the restored ledger.
func invC16Restore(t *testing.T, sections []decodedCatchpointChunkData, label string, blk *bookkeeping.Block) (l *Ledger, stage string, err error) {
	var initState ledgercore.InitState
	initState.Block.CurrentProtocol = protocol.ConsensusFuture
	conf := config.GetDefaultLocal()
	dbName := strings.Replace(fmt.Sprintf("%s.%d", t.Name()+"FromCatchpoint", crypto.RandUint64()), "/", "_", -1)
	l, err = OpenLedger(logging.TestingLog(t), dbName, true, initState, conf)
	require.NoError(t, err)
	t.Cleanup(l.Close)

	ctx := context.Background()
	accessor := MakeCatchpointCatchupAccessor(l, l.log)
	require.NoError(t, accessor.ResetStagingBalances(ctx, true))
	require.NoError(t, accessor.SetLabel(ctx, label))

	var progress CatchpointCatchupAccessorProgress
	for _, s := range sections {
		if err = accessor.ProcessStagingBalances(ctx, s.headerName, s.data, &progress); err != nil {
			return l, "ProcessStagingBalances(" + s.headerName + ")", err
		}
	}
	if err = accessor.BuildMerkleTrie(ctx, nil); err != nil {
		return l, "BuildMerkleTrie", err
	}
	if err = accessor.VerifyCatchpoint(ctx, blk); err != nil {
		return l, "VerifyCatchpoint", err
	}
	// adopted: switch the staging tables in.
	require.NoError(t, accessor.(*catchpointCatchupAccessorImpl).finishBalances(ctx))
	return l, "", nil
}

func invC16RestoredKVs(t *testing.T, l *Ledger) map[string][]byte {
	res := make(map[string][]byte)
	err := l.trackerDB().Snapshot(func(ctx context.Context, tx trackerdb.SnapshotScope) error {
		kvs, err := tx.MakeKVsIter(ctx)
		if err != nil {
			return err
		}
		defer kvs.Close()
		for kvs.Next() {
			k, v, err := kvs.KeyValue()
			if err != nil {
				return err
			}
			res[string(k)] = v
		}
		return nil
	})
	require.NoError(t, err)
	return res
}

// TestInvC16Control: an ordinary history round-trips, and an ordinary alteration of a box value is refused.
// (Shows that the harness and the label derivation are sound.)
func TestInvC16Control(t *testing.T) {
	partitiontest.PartitionTest(t)

	p := invC16MakeProducer(t, []invC16Box{{"abc", "defgh"}, {"xyz", "12345678"}})

	l, stage, err := invC16Restore(t, p.sections, p.label, &p.blk)
	require.NoError(t, err, "genuine catchpoint file refused at %s", stage)
	require.Equal(t, p.kvs, invC16RestoredKVs(t, l))
	v, err := l.LookupKv(l.Latest(), apps.MakeBoxKey(uint64(p.app), "abc"))
	require.NoError(t, err)
	require.Equal(t, "defgh", string(v))

	// flip one byte of the box value: must be refused.
	tampered := invC16TamperKV(t, p, "abc", func(key, value []byte) ([]byte, []byte) {
		value = append([]byte(nil), value...)
		value[0] ^= 1
		return key, value
	})
	_, stage, err = invC16Restore(t, tampered, p.label, &p.blk)
	require.Error(t, err)
	require.Equal(t, "VerifyCatchpoint", stage)
}

// invC16TamperKV returns a copy of the genuine sections in which the kv record of the named box was rewritten by f.
func invC16TamperKV(t *testing.T, p invC16Producer, boxName string, f func(key, value []byte) ([]byte, []byte)) []decodedCatchpointChunkData {
	out := make([]decodedCatchpointChunkData, len(p.sections))
	wanted := apps.MakeBoxKey(uint64(p.app), boxName)
	found := false
	for i, s := range p.sections {
		out[i] = decodedCatchpointChunkData{headerName: s.headerName, data: append([]byte(nil), s.data...)}
		if !strings.HasPrefix(s.headerName, catchpointBalancesFileNamePrefix) {
			continue
		}
		var chunk CatchpointSnapshotChunkV6
		require.NoError(t, protocol.Decode(s.data, &chunk))
		changed := false
		for j := range chunk.KVs {
			if string(chunk.KVs[j].Key) == wanted {
				chunk.KVs[j].Key, chunk.KVs[j].Value = f(chunk.KVs[j].Key, chunk.KVs[j].Value)
				changed, found = true, true
			}
		}
		if changed {
			out[i].data = protocol.Encode(&chunk)
		}
	}
	require.True(t, found, "box %q not found in the catchpoint file", boxName)
	return out
}

// TestInvC16TamperedBoxBoundaryAccepted: property (2).
// The peer serving the catchpoint file moves the first byte of a box's value to the end of the box's name.
// Nothing else in the file changes. The file no longer describes the producer's state, so it must be refused.
func TestInvC16TamperedBoxBoundaryAccepted(t *testing.T) {
	partitiontest.PartitionTest(t)

	p := invC16MakeProducer(t, []invC16Box{{"abc", "defgh"}})

	tampered := invC16TamperKV(t, p, "abc", func(key, value []byte) ([]byte, []byte) {
		newKey := append(append([]byte(nil), key...), value[0]) // box "abcd"
		newValue := append([]byte(nil), value[1:]...)           // "efgh"
		return newKey, newValue
	})

	l, stage, err := invC16Restore(t, tampered, p.label, &p.blk)
	if err != nil {
		t.Logf("tampered file refused at %s: %v", stage, err)
		return
	}
	// the file was adopted under the producer's label. Show what the node now believes.
	restored := invC16RestoredKVs(t, l)
	orig, origErr := l.LookupKv(l.Latest(), apps.MakeBoxKey(uint64(p.app), "abc"))
	forged, forgedErr := l.LookupKv(l.Latest(), apps.MakeBoxKey(uint64(p.app), "abcd"))
	require.Equal(t, p.kvs, restored,
		"TAMPERED CATCHPOINT ADOPTED under the genuine label %s: producer has box \"abc\"=\"defgh\"; restored ledger has box \"abc\"=%q (err %v) and box \"abcd\"=%q (err %v)",
		p.label, orig, origErr, forged, forgedErr)
}

// TestInvC16GenuineBoxesRefused: property (1), no tampering at all.
// One application owns the boxes "a"="bc" and "ab"="c" (two ordinary box_put calls). The catchpoint file the
// producer writes for that state must restore to the same state under the producer's label.
func TestInvC16GenuineBoxesRefused(t *testing.T) {
	partitiontest.PartitionTest(t)

	p := invC16MakeProducer(t, []invC16Box{{"a", "bc"}, {"ab", "c"}})

	l, stage, err := invC16Restore(t, p.sections, p.label, &p.blk)
	require.NoError(t, err, "GENUINE catchpoint file (label %s) refused at %s", p.label, stage)
	require.Equal(t, p.kvs, invC16RestoredKVs(t, l))
}

// TestInvC16GenuineLabelDiverges: property (1), no tampering at all.
// As above, but the box "a" is deleted again in a later round, so that the producer's state holds the single
// box "ab"="c". The producer's catchpoint file must restore under the producer's own label.
func TestInvC16GenuineLabelDiverges(t *testing.T) {
	partitiontest.PartitionTest(t)

	p := invC16MakeProducer(t, []invC16Box{{"a", "bc"}, {"ab", "c"}}, "a")
	require.Len(t, p.kvs, 1)

	l, stage, err := invC16Restore(t, p.sections, p.label, &p.blk)
	require.NoError(t, err, "GENUINE catchpoint file (label %s) refused at %s", p.label, stage)
	require.Equal(t, p.kvs, invC16RestoredKVs(t, l))
}
