// Investigation C17: "for any sequence of insertions and deletions, interleaved with commits,
// evictions and reloads from storage under any page configuration, the trie's root hash equals
// the canonical hash of the resulting set. Insert and delete report membership correctly."
//
// The search below drives the PUBLIC api only (MakeTrie / Add / Delete / Commit / Evict / RootHash / GetStats),
// in the call patterns production uses:
//   - ledger/catchpointtracker.go commitRound:    Add/Delete ... ; Commit() ; (postCommit) Evict(false)   - one long lived Trie
//   - ledger/catchpointtracker.go initializeHashes, ledger/catchupaccessor.go BuildMerkleTrie:
//     Add ... ; Evict(true) ; Add ... ; Evict(true)   - one long lived Trie
//   - restart: MakeTrie on the same committer.
//
// No storage fault is ever injected in this file: the committer is the package's own InMemoryCommitter.

package merkletrie

import (
	"encoding/binary"
	"errors"
	"fmt"
	"math/rand"
	"sort"
	"strings"
	"testing"

	"github.com/algorand/go-algorand/crypto"
)

// ---------------------------------------------------------------------------------------------
// reference 1: canonical root computed from the key set alone ( no trie code involved ).
// encoding as documented by node.calculateHash / Trie.RootHash.
// ---------------------------------------------------------------------------------------------

func c17CanonicalNode(path []byte, keys [][]byte) []byte {
	// keys are the remaining suffixes ( all distinct, same length, sorted ), len(keys) >= 1 and the node is not a leaf.
	acc := []byte{byte(len(path))}
	acc = append(acc, path...)
	for i := 0; i < len(keys); {
		b := keys[i][0]
		j := i
		for j < len(keys) && keys[j][0] == b {
			j++
		}
		if j-i == 1 {
			rest := keys[i][1:]
			acc = append(acc, 0, byte(len(rest)), b)
			acc = append(acc, rest...)
		} else {
			sub := make([][]byte, 0, j-i)
			for _, k := range keys[i:j] {
				sub = append(sub, k[1:])
			}
			childPath := append(append([]byte{}, path...), b)
			h := c17CanonicalNode(childPath, sub)
			acc = append(acc, 1, byte(len(h)), b)
			acc = append(acc, h...)
		}
		i = j
	}
	h := crypto.Hash(acc)
	return h[:]
}

func c17CanonicalRoot(set map[string]bool) crypto.Digest {
	if len(set) == 0 {
		return crypto.Digest{}
	}
	keys := c17SortedKeys(set)
	if len(keys) == 1 {
		return crypto.Hash(append([]byte{0}, keys[0]...))
	}
	return crypto.Hash(append([]byte{1}, c17CanonicalNode(nil, keys)...))
}

func c17SortedKeys(set map[string]bool) [][]byte {
	ks := make([]string, 0, len(set))
	for k := range set {
		ks = append(ks, k)
	}
	sort.Strings(ks)
	out := make([][]byte, len(ks))
	for i, k := range ks {
		out[i] = []byte(k)
	}
	return out
}

// reference 2: a FRESH trie, fresh in-memory committer, default ( huge page, huge cache ) config.
func c17FreshTrieRoot(t testing.TB, set map[string]bool) crypto.Digest {
	mt, err := MakeTrie(&InMemoryCommitter{}, defaultTestMemoryConfig)
	if err != nil {
		t.Fatalf("reference MakeTrie: %v", err)
	}
	for _, k := range c17SortedKeys(set) {
		added, err := mt.Add(k)
		if err != nil || !added {
			t.Fatalf("reference Add: %v %v", added, err)
		}
	}
	root, err := mt.RootHash()
	if err != nil {
		t.Fatalf("reference RootHash: %v", err)
	}
	return root
}

// ---------------------------------------------------------------------------------------------
// the driver
// ---------------------------------------------------------------------------------------------

type c17Op struct {
	kind string // add del commit evictT evictF reload
	key  []byte
}

func (o c17Op) String() string {
	if o.key != nil {
		return fmt.Sprintf("%s(%x)", o.kind, o.key)
	}
	return o.kind
}

func c17OpsString(ops []c17Op) string {
	s := make([]string, len(ops))
	for i, o := range ops {
		s[i] = o.String()
	}
	return strings.Join(s, " ")
}

func c17CloneStore(mc *InMemoryCommitter) *InMemoryCommitter {
	out := &InMemoryCommitter{memStore: make(map[uint64][]byte)}
	for k, v := range mc.memStore {
		out.memStore[k] = append([]byte{}, v...)
	}
	return out
}

// c17CheckStorage opens the stored image with a brand new Trie ( what a node restart does ), and verifies
// that the root is the canonical one and that every leaf can be reached.
func c17CheckStorage(mc *InMemoryCommitter, cfg MemoryConfig, model map[string]bool, want crypto.Digest) error {
	mt, err := MakeTrie(c17CloneStore(mc), cfg)
	if err != nil {
		return fmt.Errorf("restart: MakeTrie: %w", err)
	}
	root, err := mt.RootHash()
	if err != nil {
		return fmt.Errorf("restart: RootHash: %w", err)
	}
	if root != want {
		return fmt.Errorf("restart: stored root %v is not the canonical root %v of the %d-element set", root, want, len(model))
	}
	stats, err := mt.GetStats()
	if err != nil {
		return fmt.Errorf("restart: walking the stored trie failed: %w", err)
	}
	if int(stats.LeafCount) != len(model) {
		return fmt.Errorf("restart: stored trie has %d leaves, set has %d", stats.LeafCount, len(model))
	}
	for k := range model {
		added, err := mt.Add([]byte(k))
		if err != nil || added {
			return fmt.Errorf("restart: Add(%x) of a member returned (%v,%v)", k, added, err)
		}
	}
	return nil
}

// c17Run executes ops; returns the index of the first step that violates the property, and a description.
// checkStorage: after every operation that leaves the trie committed, also open the stored image with a new Trie.
func c17Run(t testing.TB, cfg MemoryConfig, ops []c17Op, checkStorage bool) (int, error) {
	mc := &InMemoryCommitter{}
	mt, err := MakeTrie(mc, cfg)
	if err != nil {
		t.Fatalf("MakeTrie: %v", err)
	}
	model := map[string]bool{}
	dirty := false // modified since the last commit
	for i, op := range ops {
		committed := false
		switch op.kind {
		case "add":
			key := append([]byte{}, op.key...)
			added, err := mt.Add(key)
			if err != nil {
				return i, fmt.Errorf("Add(%x) failed: %w", op.key, err)
			}
			if added == model[string(op.key)] {
				return i, fmt.Errorf("Add(%x) returned %v but membership was %v", op.key, added, model[string(op.key)])
			}
			if added {
				dirty = true
			}
			model[string(op.key)] = true
		case "del":
			deleted, err := mt.Delete(append([]byte{}, op.key...))
			if err != nil {
				return i, fmt.Errorf("Delete(%x) failed: %w", op.key, err)
			}
			if deleted != model[string(op.key)] {
				return i, fmt.Errorf("Delete(%x) returned %v but membership was %v", op.key, deleted, model[string(op.key)])
			}
			if deleted {
				dirty = true
			}
			delete(model, string(op.key))
		case "commit":
			if _, err := mt.Commit(); err != nil {
				return i, fmt.Errorf("Commit failed: %w", err)
			}
			committed, dirty = true, false
		case "evictT":
			if _, err := mt.Evict(true); err != nil {
				return i, fmt.Errorf("Evict(true) failed: %w", err)
			}
			committed, dirty = true, false
		case "evictF":
			// production ( catchpointTracker.postCommit ) calls this right after Commit; with pending changes it is refused.
			_, err := mt.Evict(false)
			if dirty {
				if err != ErrUnableToEvictPendingCommits {
					return i, fmt.Errorf("Evict(false) with pending changes returned %v", err)
				}
			} else if err != nil {
				return i, fmt.Errorf("Evict(false) failed: %w", err)
			}
		case "reload":
			// a restart: only meaningful when everything was committed; the generator only emits it after a commit,
			// the minimiser may remove that commit, in which case we commit here.
			if dirty {
				if _, err := mt.Commit(); err != nil {
					return i, fmt.Errorf("Commit(before reload) failed: %w", err)
				}
				dirty = false
			}
			mt, err = MakeTrie(mc, cfg)
			if err != nil {
				return i, fmt.Errorf("reload MakeTrie failed: %w", err)
			}
			committed = true
		}
		if committed {
			want := c17CanonicalRoot(model)
			got, err := mt.RootHash()
			if err != nil {
				return i, fmt.Errorf("RootHash failed: %w", err)
			}
			if got != want {
				return i, fmt.Errorf("root %v is not the canonical root %v of the %d-element set", got, want, len(model))
			}
			if checkStorage {
				if err := c17CheckStorage(mc, cfg, model, want); err != nil {
					return i, err
				}
			}
		}
	}
	// final: every member / non-member is reported correctly by the live trie, and by the stored image.
	if _, err := mt.Commit(); err != nil {
		return len(ops), fmt.Errorf("final Commit failed: %w", err)
	}
	want := c17CanonicalRoot(model)
	if err := c17CheckStorage(mc, cfg, model, want); err != nil {
		return len(ops), fmt.Errorf("final: %w", err)
	}
	for k := range model {
		added, err := mt.Add([]byte(k))
		if err != nil || added {
			return len(ops), fmt.Errorf("final: live Add(%x) of a member returned (%v,%v)", k, added, err)
		}
	}
	return -1, nil
}

func c17Universe(rnd *rand.Rand, kind int) [][]byte {
	var out [][]byte
	switch kind {
	case 0: // 4-byte keys over a 3 letter alphabet: deep shared prefixes
		for i := 0; i < 81; i++ {
			out = append(out, []byte{byte(i / 27 % 3), byte(i / 9 % 3), byte(i / 3 % 3), byte(i % 3)})
		}
	case 1: // 32 byte digests, like production
		for i := 0; i < 64; i++ {
			h := crypto.Hash([]byte{byte(i), 17})
			out = append(out, h[:])
		}
	default: // 3-byte keys, wide fan-out on the first byte
		for i := 0; i < 96; i++ {
			out = append(out, []byte{byte(i % 16), byte(i / 16 % 2), byte(i / 32)})
		}
	}
	rnd.Shuffle(len(out), func(i, j int) { out[i], out[j] = out[j], out[i] })
	return out
}

func c17Generate(rnd *rand.Rand, universe [][]byte, steps int) []c17Op {
	var ops []c17Op
	pAdd := 40 + rnd.Intn(30)
	for len(ops) < steps {
		r := rnd.Intn(100)
		switch {
		case r < pAdd:
			ops = append(ops, c17Op{kind: "add", key: universe[rnd.Intn(len(universe))]})
		case r < 80:
			ops = append(ops, c17Op{kind: "del", key: universe[rnd.Intn(len(universe))]})
		case r < 88:
			// catchpointTracker pattern
			ops = append(ops, c17Op{kind: "commit"}, c17Op{kind: "evictF"})
		case r < 95:
			// initializeHashes / BuildMerkleTrie pattern
			ops = append(ops, c17Op{kind: "evictT"})
		case r < 97:
			ops = append(ops, c17Op{kind: "commit"})
		default:
			ops = append(ops, c17Op{kind: "commit"}, c17Op{kind: "reload"})
		}
	}
	return ops
}

func c17Config(rnd *rand.Rand) MemoryConfig {
	cfg := MemoryConfig{
		NodesCountPerPage:         int64(2 + rnd.Intn(7)), // 2..8
		CachedNodesCount:          rnd.Intn(7),            // 0..6 : Evict really evicts
		PageFillFactor:            []float32{0.5, 0.9, 0.95}[rnd.Intn(3)],
		MaxChildrenPagesThreshold: []uint64{2, 32, 64}[rnd.Intn(3)],
	}
	return cfg
}

// c17Minimise greedily removes operations while the run still fails ( anywhere ).
func c17Minimise(t testing.TB, cfg MemoryConfig, ops []c17Op, checkStorage bool) []c17Op {
	cur := append([]c17Op{}, ops...)
	if at, err := c17Run(t, cfg, cur, checkStorage); err != nil && at < len(cur) {
		cur = cur[:at+1]
	}
	for changed := true; changed; {
		changed = false
		for i := len(cur) - 1; i >= 0; i-- {
			cand := append(append([]c17Op{}, cur[:i]...), cur[i+1:]...)
			if at, err := c17Run(t, cfg, cand, checkStorage); err != nil {
				if at < len(cand) {
					cand = cand[:at+1]
				}
				cur = cand
				changed = true
				if i > len(cur) {
					i = len(cur)
				}
			}
		}
	}
	return cur
}

func c17Search(t *testing.T, sequences int, checkStorage bool) {
	failures := 0
	for seed := 0; seed < sequences; seed++ {
		rnd := rand.New(rand.NewSource(int64(seed)))
		cfg := c17Config(rnd)
		universe := c17Universe(rnd, seed%3)
		universe = universe[:8+rnd.Intn(len(universe)-8)]
		ops := c17Generate(rnd, universe, 40+rnd.Intn(160))
		at, err := c17Run(t, cfg, ops, checkStorage)
		if err == nil {
			continue
		}
		failures++
		if failures <= 3 {
			min := c17Minimise(t, cfg, ops, checkStorage)
			_, minErr := c17Run(t, cfg, min, checkStorage)
			t.Errorf("seed %d cfg %+v: step %d/%d: %v\n  minimised to %d ops: %s\n  minimised failure: %v", seed, cfg, at, len(ops), err, len(min), c17OpsString(min), minErr)
		}
	}
	if failures > 0 {
		t.Errorf("%d of %d sequences violate the property", failures, sequences)
	}
}

// TestFindingC17ReferenceAgreement: the two reference computations agree ( and so the canonical encoding used here is the trie's ).
func TestFindingC17ReferenceAgreement(t *testing.T) {
	for seed := 0; seed < 60; seed++ {
		rnd := rand.New(rand.NewSource(int64(seed)))
		universe := c17Universe(rnd, seed%3)
		set := map[string]bool{}
		for _, k := range universe[:rnd.Intn(len(universe))] {
			set[string(k)] = true
		}
		if a, b := c17CanonicalRoot(set), c17FreshTrieRoot(t, set); a != b {
			t.Fatalf("seed %d: reference computations disagree on a %d element set: %v vs %v", seed, len(set), a, b)
		}
	}
}

// TestFindingC17SearchLive checks only what the long lived Trie object reports ( root after each commit, membership results ).
func TestFindingC17SearchLive(t *testing.T) {
	c17Search(t, 3000, false)
}

// TestFindingC17SearchStored additionally re-opens the stored image after every commit ( a restart at that point ).
func TestFindingC17SearchStored(t *testing.T) {
	c17Search(t, 3000, true)
}

// TestFindingC17EvictedTipPageLosesStoredNodes is the minimised, deterministic form of what the search finds.
// Call pattern = catchpointTracker: { Add/Delete ... ; Commit() ; Evict(false) } per round on one long lived Trie,
// no storage fault, package's own InMemoryCommitter.
//
// After round 1's Commit the allocator ( Trie.nextNodeID ) stands in the middle of a page that is already stored with the nodes
// the commit has packed on it. Evict(false) drops that page from memory ( CachedNodesCount is small ). The Add of round 2 allocates
// its nodes on that same page: merkleTrieCache.allocateNewNode creates an EMPTY in-memory page map for it, and because only
// initialize() ever sets deferedPageLoad, commit() rewrites the page with just the new nodes: the older nodes of that page, still
// referenced by the trie, are gone from storage. The root hash is still the canonical one ( hashes were computed earlier ), but the
// stored trie cannot be walked any more, and later Add/Delete calls that need one of the lost nodes fail with ErrLoadedPageMissingNode.
func TestFindingC17EvictedTipPageLosesStoredNodes(t *testing.T) {
	cfg := MemoryConfig{NodesCountPerPage: 3, CachedNodesCount: 3, PageFillFactor: 0.5, MaxChildrenPagesThreshold: 64}
	mc := &InMemoryCommitter{}
	mt, err := MakeTrie(mc, cfg)
	if err != nil {
		t.Fatal(err)
	}
	model := map[string]bool{}
	add := func(k ...byte) {
		added, err := mt.Add(k)
		if err != nil || !added {
			t.Fatalf("Add(%x) = %v, %v", k, added, err)
		}
		model[string(k)] = true
	}
	endOfRound := func() {
		if _, err := mt.Commit(); err != nil {
			t.Fatal(err)
		}
		if _, err := mt.Evict(false); err != nil {
			t.Fatal(err)
		}
		root, err := mt.RootHash()
		if err != nil {
			t.Fatal(err)
		}
		if want := c17CanonicalRoot(model); root != want {
			t.Errorf("live root %v is not the canonical root %v", root, want)
		}
	}
	// round 1
	add(2, 0, 2, 2)
	add(0, 2, 2, 1)
	add(2, 2, 0, 2)
	add(0, 2, 2, 2)
	add(2, 0, 1, 1)
	add(2, 1, 0, 2)
	endOfRound()
	if err = c17CheckStorage(mc, cfg, model, c17CanonicalRoot(model)); err != nil {
		t.Fatalf("after round 1 the stored trie should be fine: %v", err)
	}
	tipPage := uint64(mt.nextNodeID) / uint64(cfg.NodesCountPerPage)
	storedBefore, _ := decodePage(mc.memStore[tipPage])
	t.Logf("after round 1: next node id %d = page %d offset %d; page in memory: %v; page in storage holds %d node(s)",
		mt.nextNodeID, tipPage, uint64(mt.nextNodeID)%uint64(cfg.NodesCountPerPage), mt.cache.pageToNIDsPtr[tipPage] != nil, len(storedBefore))

	// round 2
	add(0, 1, 0, 1)
	endOfRound()

	storedAfter, _ := decodePage(mc.memStore[tipPage])
	for nid := range storedBefore {
		if _, has := storedAfter[nid]; !has {
			t.Logf("node %d was stored on page %d after round 1 and is not on it after round 2", nid, tipPage)
		}
	}
	// a restart from what has been stored
	if err = c17CheckStorage(mc, cfg, model, c17CanonicalRoot(model)); err != nil {
		t.Errorf("C17: after { 6 x Add, Commit, Evict(false), Add, Commit, Evict(false) } the stored trie is damaged: %v", err)
	}
	// and the live session: every member must be reported as a member
	for _, k := range c17SortedKeys(model) {
		added, err := mt.Add(k)
		if err != nil || added {
			t.Errorf("C17: live trie: Add(%x) of a member returned (%v, %v); want (false, nil)", k, added, err)
		}
	}
	for _, k := range c17SortedKeys(model) {
		deleted, err := mt.Delete(k)
		if err != nil || !deleted {
			t.Errorf("C17: live trie: Delete(%x) of a member returned (%v, %v); want (true, nil)", k, deleted, err)
		}
	}
}

// ---------------------------------------------------------------------------------------------
// exposure of the evicted-tip-page defect under the production memory configuration ( informational, passes )
// ---------------------------------------------------------------------------------------------

// production memory configuration ( ledger/store/trackerdb/catchpoint.go ), production call patterns:
// how often does Evict leave a partially filled tip page out of memory ?
func TestFindingC17ProductionConfigExposure(t *testing.T) {
	cfg := MemoryConfig{NodesCountPerPage: 116, CachedNodesCount: 9000, PageFillFactor: 0.95, MaxChildrenPagesThreshold: 64}
	for _, pattern := range []string{"commit+evict(false)", "evict(true)"} {
		rnd := rand.New(rand.NewSource(7))
		mc := &InMemoryCommitter{}
		mt, _ := MakeTrie(mc, cfg)
		model := map[string]bool{}
		var keys [][]byte
		exposed, evictions, maxCached := 0, 0, 0
		for round := 0; round < 400; round++ {
			n := 1 + rnd.Intn(800)
			for i := 0; i < n; i++ {
				if len(keys) > 0 && rnd.Intn(100) < 35 {
					j := rnd.Intn(len(keys))
					k := keys[j]
					keys[j] = keys[len(keys)-1]
					keys = keys[:len(keys)-1]
					if ok, err := mt.Delete(k); !ok || err != nil {
						t.Fatalf("%s round %d: Delete = %v %v", pattern, round, ok, err)
					}
					delete(model, string(k))
				} else {
					var b [8]byte
					binary.BigEndian.PutUint64(b[:], rnd.Uint64())
					h := crypto.Hash(b[:])
					if ok, err := mt.Add(h[:]); !ok || err != nil {
						t.Fatalf("%s round %d: Add = %v %v", pattern, round, ok, err)
					}
					keys = append(keys, h[:])
					model[string(h[:])] = true
				}
			}
			if pattern == "evict(true)" {
				if _, err := mt.Evict(true); err != nil {
					t.Fatal(err)
				}
			} else {
				if _, err := mt.Commit(); err != nil {
					t.Fatal(err)
				}
				if _, err := mt.RootHash(); err != nil {
					t.Fatal(err)
				}
				if mt.cache.cachedNodeCount > maxCached {
					maxCached = mt.cache.cachedNodeCount
				}
				if _, err := mt.Evict(false); err != nil {
					t.Fatal(err)
				}
			}
			evictions++
			tip := uint64(mt.nextNodeID) / uint64(cfg.NodesCountPerPage)
			if uint64(mt.nextNodeID)%uint64(cfg.NodesCountPerPage) > 0 && mt.cache.pageToNIDsPtr[tip] == nil {
				exposed++
			}
		}
		err := c17CheckStorage(mc, cfg, model, c17CanonicalRoot(model))
		t.Logf("%s: %d keys, %d evictions, tip page partially filled and out of memory after Evict: %d times; stored trie check: %v", pattern, len(model), evictions, exposed, err)
	}
}

// ---------------------------------------------------------------------------------------------
// secondary observations: these two need a storage fault ( not in the property's quantifier ). Production drops the
// Trie object after any error ( catchpointTracker.handleCommitError / clearCommitRoundRetry set balancesTrie = nil ).
// ---------------------------------------------------------------------------------------------

// c17FaultyCommitter fails the n-th LoadPage / StorePage call ( 1 based; 0 = never ).
type c17FaultyCommitter struct {
	InMemoryCommitter
	loads, stores       int
	failLoad, failStore int
}

var errC17Injected = errors.New("injected storage fault")

func (c *c17FaultyCommitter) LoadPage(page uint64) ([]byte, error) {
	c.loads++
	if c.loads == c.failLoad {
		return nil, errC17Injected
	}
	return c.InMemoryCommitter.LoadPage(page)
}

func (c *c17FaultyCommitter) StorePage(page uint64, content []byte) error {
	c.stores++
	if c.stores == c.failStore {
		return errC17Injected
	}
	return c.InMemoryCommitter.StorePage(page, content)
}

var c17FaultKeys = [][]byte{{0, 0, 1, 1}, {0, 0, 1, 2}, {0, 1, 0, 0}, {1, 0, 0, 0}, {1, 1, 0, 0}, {1, 1, 0, 1}, {2, 2, 2, 2}}

// Observation 2: a Delete that fails ( page load fault ) must leave the trie as it was.
func TestFindingC17FailedDeleteLeavesTrieChanged(t *testing.T) {
	cfg := MemoryConfig{NodesCountPerPage: 1, CachedNodesCount: 0, PageFillFactor: 0.9, MaxChildrenPagesThreshold: 64}
	bad := 0
	for victim := range c17FaultKeys {
		for k := 1; k < 40; k++ {
			mc := &c17FaultyCommitter{}
			mt, _ := MakeTrie(mc, cfg)
			model := map[string]bool{}
			for _, key := range c17FaultKeys {
				mt.Add(append([]byte{}, key...))
				model[string(key)] = true
			}
			if _, err := mt.Evict(true); err != nil {
				t.Fatal(err)
			}
			mc.loads, mc.failLoad = 0, k
			deleted, err := mt.Delete(append([]byte{}, c17FaultKeys[victim]...))
			mc.failLoad = 0
			if err == nil {
				if !deleted {
					t.Fatalf("Delete = false,nil")
				}
				break // k is beyond the number of loads this Delete needs
			}
			// the Delete failed: the set is unchanged. No further fault from here on.
			var problems []string
			func() {
				defer func() {
					if r := recover(); r != nil {
						problems = append(problems, fmt.Sprintf("PANIC: %v", r))
					}
				}()
				// it was and is a member: Add must return (false, nil) and change nothing
				if added, err := mt.Add(append([]byte{}, c17FaultKeys[victim]...)); added || err != nil {
					problems = append(problems, "Add(victim) of a member returned ("+boolStr(added)+","+errStr(err)+")")
				}
				root, err := mt.RootHash()
				if err != nil {
					problems = append(problems, "RootHash: "+err.Error())
				} else if root != c17CanonicalRoot(model) {
					problems = append(problems, "root is not the canonical root of the unchanged set")
				}
			}()
			if len(problems) > 0 {
				bad++
				t.Errorf("C17/obs2: Delete(%x) failed at its load #%d ( %v ); afterwards: %v", c17FaultKeys[victim], k, errC17Injected, problems)
			}
		}
	}
	t.Logf("%d (victim, fault position) combinations leave the in-memory trie changed after a failed Delete", bad)
}

func boolStr(b bool) string {
	if b {
		return "true"
	}
	return "false"
}
func errStr(e error) string {
	if e == nil {
		return "nil"
	}
	return e.Error()
}

// Observation 3: a Commit that fails in StorePage, retried.
func TestFindingC17FailedCommitRetried(t *testing.T) {
	for _, npp := range []int64{1, 2, 4} {
		cfg := MemoryConfig{NodesCountPerPage: npp, CachedNodesCount: 0, PageFillFactor: 0.9, MaxChildrenPagesThreshold: 64}
		for k := 1; k < 60; k++ {
			mc := &c17FaultyCommitter{}
			mt, _ := MakeTrie(mc, cfg)
			model := map[string]bool{}
			for _, key := range c17FaultKeys[:4] {
				mt.Add(append([]byte{}, key...))
				model[string(key)] = true
			}
			if _, err := mt.Commit(); err != nil {
				t.Fatal(err)
			}
			for _, key := range c17FaultKeys[4:] {
				mt.Add(append([]byte{}, key...))
				model[string(key)] = true
			}
			mc.stores, mc.failStore = 0, k
			_, err := mt.Commit()
			mc.failStore = 0
			if err == nil {
				break
			}
			// retry, no more faults
			if _, err = mt.Commit(); err != nil {
				t.Errorf("C17/obs3: page size %d: Commit failed at its store #%d; the retried Commit fails: %v", npp, k, err)
				continue
			}
			root, err := mt.RootHash()
			if err != nil {
				t.Errorf("C17/obs3: page size %d: store #%d failed; RootHash after the retried Commit: %v", npp, k, err)
				continue
			}
			if root != c17CanonicalRoot(model) {
				t.Errorf("C17/obs3: page size %d: Commit failed at its store #%d, the retried Commit succeeded, and the root %v is not the canonical root %v", npp, k, root, c17CanonicalRoot(model))
				continue
			}
			if err := c17CheckStorage(&mc.InMemoryCommitter, cfg, model, root); err != nil {
				t.Errorf("C17/obs3: page size %d: store #%d failed, retried: %v", npp, k, err)
			}
		}
	}
}
