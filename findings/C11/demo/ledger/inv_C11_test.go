// Copyright (C) 2019-2026 Algorand Foundation Ltd.
// This file is part of go-algorand
//
// go-algorand is free software: you can redistribute it and/or modify
// it under the terms of the GNU Affero General Public License as
// published by the Free Software Foundation, either version 3 of the
// License, or (at your option) any later version.
//
// go-algorand is distributed in the hope that it will be useful,
// but WITHOUT ANY WARRANTY; without even the implied warranty of
// MERCHANTABILITY or FITNESS FOR A PARTICULAR PURPOSE.  See the
// GNU Affero General Public License for more details.
//
// You should have received a copy of the GNU Affero General Public License
// along with go-algorand.  If not, see <https://www.gnu.org/licenses/>.

package ledger

import (
	"testing"
	"time"

	"github.com/stretchr/testify/assert"
	"github.com/stretchr/testify/require"

	"github.com/algorand/go-algorand/config"
	"github.com/algorand/go-algorand/crypto"
	"github.com/algorand/go-algorand/data/basics"
	"github.com/algorand/go-algorand/data/transactions"
	"github.com/algorand/go-algorand/ledger/eval"
	"github.com/algorand/go-algorand/ledger/ledgercore"
	ledgertesting "github.com/algorand/go-algorand/ledger/testing"
	"github.com/algorand/go-algorand/logging"
	"github.com/algorand/go-algorand/protocol"
	"github.com/algorand/go-algorand/test/partitiontest"
)

// invC11AppendTxns builds the next block out of the given transactions, validates it ( as a block
// received from the network would be ) and, when valid, adds it to the ledger.
func invC11AppendTxns(t *testing.T, l *Ledger, initAccounts map[basics.Address]basics.AccountData, stxns ...transactions.SignedTxn) error {
	blk := makeNewEmptyBlock(t, l, t.Name(), initAccounts)
	proto := config.Consensus[blk.CurrentProtocol]
	blkSize := 0
	for _, stx := range stxns {
		txib, err := blk.EncodeSignedTxn(stx, transactions.ApplyData{})
		require.NoError(t, err)
		blkSize += txib.GetEncodedLength()
		blk.Payset = append(blk.Payset, txib)
	}
	if proto.TxnCounter {
		blk.TxnCounter += uint64(len(stxns))
	}
	if proto.LoadTracking {
		blk.Load = eval.ComputeLoad(blkSize, proto.MaxTxnBytesPerBlock)
	}
	require.NoError(t, endOfBlock(&blk))
	return l.appendUnvalidated(blk)
}

// testInvC11NoRecommitAfterRestart commits, in block `txnRound`, a plain payment and a leased payment,
// extends the chain with empty blocks until the tracker database has been flushed exactly up to
// `txnRound`, restarts the ledger, and then checks that
//   - the very same plain payment (still inside its validity window) cannot be committed again, and
//   - a different transaction with the same (sender, lease) is rejected while the lease is active.
func testInvC11NoRecommitAfterRestart(t *testing.T, txnRound basics.Round) {
	a := require.New(t)

	genesisInitState, initSecrets := ledgertesting.GenerateInitState(t, protocol.ConsensusCurrentVersion, 100)
	const inMem = true
	cfg := config.GetDefaultLocal()
	cfg.Archival = true
	log := logging.TestingLog(t)
	log.SetLevel(logging.Warn)
	l, err := OpenLedger(log, t.Name(), inMem, genesisInitState, cfg)
	a.NoError(err, "could not open ledger")
	defer l.Close()

	// The background flushing of the trackers is time driven ( balancesFlushInterval ); to have a
	// deterministic history, hold it off and let this test decide when the single flush happens.
	l.trackers.mu.Lock()
	l.trackers.lastFlushTime = time.Now().Add(time.Hour)
	l.trackers.mu.Unlock()

	proto := config.Consensus[protocol.ConsensusCurrentVersion]
	a.True(proto.SupportTransactionLeases)
	a.True(proto.FixTransactionLeases)

	initAccounts := genesisInitState.Accounts
	var addrList []basics.Address
	for addr := range initAccounts {
		if addr != testPoolAddr && addr != testSinkAddr {
			addrList = append(addrList, addr)
		}
	}

	// empty blocks up to (but not including) the round that will carry the transactions
	for l.Latest()+1 < txnRound {
		addEmptyValidatedBlock(t, l, initAccounts)
	}

	plain := transactions.Transaction{
		Type: protocol.PaymentTx,
		Header: transactions.Header{
			Sender:      addrList[0],
			Fee:         basics.MicroAlgos{Raw: proto.MinTxnFee * 2},
			FirstValid:  txnRound,
			LastValid:   txnRound + 500,
			GenesisID:   t.Name(),
			GenesisHash: crypto.Hash([]byte(t.Name())),
		},
		PaymentTxnFields: transactions.PaymentTxnFields{
			Receiver: addrList[1],
			Amount:   basics.MicroAlgos{Raw: 1000000},
		},
	}
	leased := plain
	leased.Sender = addrList[2]
	leased.Lease[0] = 1
	// another transaction of the same sender under the same lease
	sameLease := leased
	sameLease.Note = []byte{1}
	a.NotEqual(leased.ID(), sameLease.ID())

	noLease := ledgercore.Txlease{Sender: plain.Sender}
	txl := ledgercore.Txlease{Sender: leased.Sender, Lease: leased.Lease}
	checkDup := func(tx transactions.Transaction, lease ledgercore.Txlease) error {
		return l.CheckDup(proto, l.Latest()+1, tx.FirstValid, tx.LastValid, tx.ID(), lease)
	}

	a.NoError(invC11AppendTxns(t, l, initAccounts, sign(initSecrets, plain), sign(initSecrets, leased)), "could not add the block with the two payments")
	a.Equal(txnRound, l.Latest())

	// sanity: before any restart all of them are refused
	a.Error(checkDup(plain, noLease))
	a.Error(checkDup(leased, txl))
	a.Error(checkDup(sameLease, txl))

	// extend the chain by MaxAcctLookback empty blocks, so that the trackers are allowed to flush
	// rounds (0, txnRound] to the tracker database - and nothing more than that.
	for i := uint64(0); i < cfg.MaxAcctLookback; i++ {
		addEmptyValidatedBlock(t, l, initAccounts)
	}
	l.WaitForCommit(l.Latest())
	a.Zero(l.trackers.getDbRound())
	triggerTrackerFlush(t, l)
	a.Equal(txnRound, l.trackers.getDbRound(), "test setup: tracker db expected to be flushed exactly up to the transactions round")

	// still refused by the running ledger
	a.Error(checkDup(plain, noLease))
	a.Error(checkDup(sameLease, txl))

	// restart
	a.NoError(l.reloadLedger())
	a.Equal(txnRound, l.trackers.getDbRound())
	a.Equal(txnRound+basics.Round(cfg.MaxAcctLookback), l.Latest())
	a.LessOrEqual(l.Latest()+2, plain.LastValid, "the transactions must still be inside their validity window")

	// Property, observed at Ledger.CheckDup ( non-fatal assertions, so that every observation is reported )
	assert.Error(t, checkDup(plain, noLease), "after a restart, Ledger.CheckDup forgot the transaction committed in round %d", txnRound)
	assert.Error(t, checkDup(leased, txl), "after a restart, Ledger.CheckDup forgot the leased transaction committed in round %d", txnRound)
	assert.Error(t, checkDup(sameLease, txl), "after a restart, Ledger.CheckDup forgot the lease taken in round %d", txnRound)

	// Property, observed at block validation: a later block must not be able to carry them.
	err = invC11AppendTxns(t, l, initAccounts, sign(initSecrets, plain))
	assert.Error(t, err, "after a restart, the transaction committed in round %d was committed again in round %d", txnRound, l.Latest())
	err = invC11AppendTxns(t, l, initAccounts, sign(initSecrets, sameLease))
	assert.Error(t, err, "after a restart, a second transaction under the active lease of round %d was committed in round %d", txnRound, l.Latest())
}

// TestInvC11RecommitAfterRestartRound1 : the transaction is in the first block of the chain and the
// node restarts when the tracker database is at round 1.
func TestInvC11RecommitAfterRestartRound1(t *testing.T) {
	partitiontest.PartitionTest(t)
	testInvC11NoRecommitAfterRestart(t, 1)
}

// TestInvC11RecommitAfterRestartRound2 : control - same history shifted by a single round.
func TestInvC11RecommitAfterRestartRound2(t *testing.T) {
	partitiontest.PartitionTest(t)
	testInvC11NoRecommitAfterRestart(t, 2)
}
