// Copyright (C) 2019-2026 Algorand Foundation Ltd.
// This file is part of go-algorand
//
// go-algorand is free software: you can redistribute it and/or modify
// it under the terms of the GNU Affero General Public License as
// published by the Free Software Foundation, either version 3 of the
// License, or (at your option) any later version.
//
// go-algorand is distributed in the hope that it will be useful,
// but WITHOUT ANY WARRANTY; without even the implied warranty of
// MERCHANTABILITY or FITNESS FOR A PARTICULAR PURPOSE.  See the
// GNU Affero General Public License for more details.
//
// You should have received a copy of the GNU Affero General Public License
// along with go-algorand.  If not, see <https://www.gnu.org/licenses/>.

package ledger

import (
	"encoding/binary"
	"testing"

	"github.com/stretchr/testify/require"

	"github.com/algorand/go-algorand/config"
	"github.com/algorand/go-algorand/data/basics"
	"github.com/algorand/go-algorand/ledger/ledgercore"
	"github.com/algorand/go-algorand/ledger/store/trackerdb"
	"github.com/algorand/go-algorand/ledger/store/trackerdb/pebbledbdriver"
	"github.com/algorand/go-algorand/protocol"
	"github.com/algorand/go-algorand/test/partitiontest"
)

// TestInvC13TopOnlineAccountsAcrossFlush checks that the top-N online accounts (and hence the
// state proof voters) served for a round are the N online accounts with the largest stake at that
// round, and that the answer does not depend on whether the history is still held in the in-memory
// deltas or has been flushed to the tracker database, for every storage engine the node can be
// configured with (config.Local.StorageEngine = "sqlite" | "pebbledb").
//
// History: 3 large and 1100 small accounts are online since genesis. In round 1 every small account
// receives one more algo (so the most recent rows of the tracker database belong to the small accounts,
// the ones of the large accounts being older). No other change happens.
func TestInvC13TopOnlineAccountsAcrossFlush(t *testing.T) {
	partitiontest.PartitionTest(t)

	const numWhales = 3
	const numSmall = 1100 // more than one AccountsOnlineTop batch (1024) in TopOnlineAccounts
	const topN = numWhales

	mkAddr := func(kind byte, i int) (addr basics.Address) {
		addr[0] = kind
		binary.BigEndian.PutUint32(addr[1:], uint32(i))
		return
	}
	voting := basics.VotingData{VoteFirstValid: 0, VoteLastValid: 100000, VoteKeyDilution: 1}

	genesisAccts := []map[basics.Address]basics.AccountData{{}}
	whales := make(map[basics.Address]basics.MicroAlgos)
	for i := 0; i < numWhales; i++ {
		addr := mkAddr('W', i)
		bal := basics.MicroAlgos{Raw: uint64(1000000+i) * 1000000}
		whales[addr] = bal
		genesisAccts[0][addr] = basics.AccountData{
			MicroAlgos: bal, Status: basics.Online,
			VoteFirstValid: voting.VoteFirstValid, VoteLastValid: voting.VoteLastValid, VoteKeyDilution: voting.VoteKeyDilution,
		}
	}
	smallBal := func(i int) basics.MicroAlgos { return basics.MicroAlgos{Raw: uint64(10+i) * 1000000} }
	for i := 0; i < numSmall; i++ {
		genesisAccts[0][mkAddr('s', i)] = basics.AccountData{
			MicroAlgos: smallBal(i), Status: basics.Online,
			VoteFirstValid: voting.VoteFirstValid, VoteLastValid: voting.VoteLastValid, VoteKeyDilution: voting.VoteKeyDilution,
		}
	}
	addSinkAndPoolAccounts(genesisAccts)

	proto := protocol.ConsensusCurrentVersion
	params := config.Consensus[proto]

	checkTop := func(t *testing.T, oa *onlineAccounts, rnd basics.Round, when string) {
		top, _, err := oa.TopOnlineAccounts(rnd, rnd, topN, &params, 0)
		require.NoError(t, err)
		require.Len(t, top, topN, when)
		for _, acct := range top {
			bal, ok := whales[acct.Address]
			require.Truef(t, ok, "%s: top %d online accounts of round %d include %v (stake %d), which is not one of the %d largest online accounts",
				when, topN, rnd, acct.Address, acct.MicroAlgos.Raw, numWhales)
			require.Equal(t, bal, acct.MicroAlgos, when)
		}
	}

	engines := []struct {
		name string
		open func(t *testing.T) trackerdb.Store // nil: keep the default (sqlite)
	}{
		{"sqlite", nil},
		{"pebbledb", func(t *testing.T) trackerdb.Store { return pebbledbdriver.OpenForTesting(t, true) }},
	}
	for _, engine := range engines {
		t.Run(engine.name, func(t *testing.T) {
			ml := makeMockLedgerForTracker(t, true, 1, proto, genesisAccts)
			defer ml.Close()
			if engine.open != nil {
				ml.dbs.Close()
				ml.dbs = engine.open(t)
			}

			conf := config.GetDefaultLocal()
			au, oa := newAcctUpdates(t, ml, conf)
			defer oa.close()

			_, totals, err := au.LatestTotals()
			require.NoError(t, err)

			checkTop(t, oa, 0, "genesis")

			// round 1: every small account gets one more algo
			var updates ledgercore.AccountDeltas
			for i := 0; i < numSmall; i++ {
				updates.Upsert(mkAddr('s', i), ledgercore.AccountData{
					AccountBaseData: ledgercore.AccountBaseData{Status: basics.Online, MicroAlgos: basics.MicroAlgos{Raw: smallBal(i).Raw + 1000000}},
					VotingData:      voting,
				})
			}
			totals = newBlockWithUpdates(genesisAccts, updates, totals, t, ml, 1, oa)
			require.Equal(t, basics.Round(0), oa.cachedDBRoundOnline)
			checkTop(t, oa, 1, "round 1 held in the in-memory deltas")

			// empty rounds until round 1 has been flushed to the tracker database
			rnd := 1
			for oa.cachedDBRoundOnline < 1 {
				rnd++
				totals = newBlockWithUpdates(genesisAccts, ledgercore.AccountDeltas{}, totals, t, ml, rnd, oa)
				require.Less(t, rnd, 20)
			}
			checkTop(t, oa, 1, "round 1 flushed to the tracker database")
			checkTop(t, oa, oa.latest(), "latest round, round 1 flushed to the tracker database")
		})
	}
}
