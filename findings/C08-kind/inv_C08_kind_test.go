// Copyright (C) 2019-2026 Algorand, Inc.
// This file is part of go-algorand
//
// go-algorand is free software: you can redistribute it and/or modify
// it under the terms of the GNU Affero General Public License as
// published by the Free Software Foundation, either version 3 of the
// License, or (at your option) any later version.
//
// go-algorand is distributed in the hope that it will be useful,
// but WITHOUT ANY WARRANTY; without even the implied warranty of
// MERCHANTABILITY or FITNESS FOR A PARTICULAR PURPOSE.  See the
// GNU Affero General Public License for more details.
//
// You should have received a copy of the GNU Affero General Public License
// along with go-algorand.  If not, see <https://www.gnu.org/licenses/>.

package ledger

import (
	"fmt"
	"testing"
	"time"

	"github.com/stretchr/testify/require"

	"github.com/algorand/go-algorand/config"
	"github.com/algorand/go-algorand/data/basics"
	"github.com/algorand/go-algorand/data/txntest"
	"github.com/algorand/go-algorand/ledger/ledgercore"
	ledgertesting "github.com/algorand/go-algorand/ledger/testing"
	"github.com/algorand/go-algorand/protocol"
	"github.com/algorand/go-algorand/test/partitiontest"
)

// invC08HoldTimerFlushes prevents trackerRegistry.scheduleCommit from flushing on its own,
// so that the test decides when rounds reach the disk.
func invC08HoldTimerFlushes(l *Ledger) {
	l.trackers.mu.Lock()
	l.trackers.lastFlushTime = time.Now().Add(time.Hour)
	l.trackers.mu.Unlock()
}

// invC08EmptyBlocks appends n empty blocks.
func invC08EmptyBlocks(t *testing.T, l *Ledger, n int) {
	for i := 0; i < n; i++ {
		endBlock(t, l, nextBlock(t, l))
	}
}

type invC08Answer struct {
	app ledgercore.AppResource
	asa ledgercore.AssetResource
	err string
}

// TestInvC08ResourceLookupIndependentOfCacheAndRestart builds a tiny history (one asset creation,
// one application creation, then empty blocks) and asks the ledger, for the very same round,
//
//	LookupApplication(rnd, creator, <id of the asset>)
//	LookupAsset(rnd, creator, <id of the application>)
//
// while the round is (1) still in the in-memory deltas, (2) flushed to disk with the write-through
// LRU cache populated, (3) flushed to disk after a restart (cold cache). In the history there is
// no application with the id of the asset and no asset with the id of the application, so the
// state "genesis + blocks 1..rnd" holds nothing for either query, and the ledger has to say so
// in all three situations.
func TestInvC08ResourceLookupIndependentOfCacheAndRestart(t *testing.T) {
	partitiontest.PartitionTest(t)

	genBalances, addrs, _ := ledgertesting.NewTestGenesis()
	cfg := config.GetDefaultLocal()
	l := newSimpleLedgerWithConsensusVersion(t, genBalances, protocol.ConsensusFuture, cfg)
	defer l.Close()
	invC08HoldTimerFlushes(l)

	creator := addrs[0]

	// block 1: the creator creates an asset and an application.
	eval := nextBlock(t, l)
	txn(t, l, eval, &txntest.Txn{
		Type:        "acfg",
		Sender:      creator,
		AssetParams: basics.AssetParams{Total: 1000, UnitName: "inv", AssetName: "invC08"},
	})
	txn(t, l, eval, &txntest.Txn{
		Type:            "appl",
		Sender:          creator,
		ApprovalProgram: "int 1",
	})
	vb := endBlock(t, l, eval)
	require.Len(t, vb.Block().Payset, 2)
	asaID := vb.Block().Payset[0].ApplyData.ConfigAsset
	appID := vb.Block().Payset[1].ApplyData.ApplicationID
	require.NotZero(t, asaID)
	require.NotZero(t, appID)
	require.NotEqual(t, uint64(asaID), uint64(appID))

	lookback := int(cfg.MaxAcctLookback)
	invC08EmptyBlocks(t, l, 2*lookback)
	rnd := l.Latest()
	require.Zero(t, l.trackers.getDbRound(), "nothing is expected to be flushed yet")

	ask := func(when string) invC08Answer {
		var a invC08Answer
		// sanity: the right-typed lookups always find the creatables.
		asa, err := l.LookupAsset(rnd, creator, asaID)
		require.NoError(t, err, when)
		require.NotNil(t, asa.AssetParams, when)
		app, err := l.LookupApplication(rnd, creator, appID)
		require.NoError(t, err, when)
		require.NotNil(t, app.AppParams, when)

		var err1, err2 error
		a.app, err1 = l.LookupApplication(rnd, creator, basics.AppIndex(asaID))
		a.asa, err2 = l.LookupAsset(rnd, creator, basics.AssetIndex(appID))
		if err1 != nil || err2 != nil {
			a.err = fmt.Sprintf("LookupApplication: %v; LookupAsset: %v", err1, err2)
		}
		return a
	}

	// the oracle: no such application / asset exists in the history.
	oracle := invC08Answer{}

	// (1) round rnd is served from the in-memory deltas.
	inMemory := ask("in memory")
	require.Equal(t, oracle, inMemory, "in-memory answer")

	// (2) flush: block 1 reaches the disk; postCommit writes the flushed resources through the LRU cache.
	invC08EmptyBlocks(t, l, lookback)
	triggerTrackerFlush(t, l)
	invC08HoldTimerFlushes(l)
	require.GreaterOrEqual(t, l.trackers.getDbRound(), basics.Round(1))
	require.LessOrEqual(t, l.trackers.getDbRound(), rnd, "round rnd must still be served")
	flushedWarm := ask("flushed, warm cache")
	require.Equal(t, oracle, flushedWarm, "answer after flush (warm cache)")

	// (3) restart: same blocks, same disk content, cold caches.
	require.NoError(t, l.reloadLedger())
	invC08HoldTimerFlushes(l)
	require.LessOrEqual(t, l.trackers.getDbRound(), rnd, "round rnd must still be served")
	flushedCold := ask("flushed, after restart")
	require.Equal(t, oracle, flushedCold,
		"the answer for round %d changed across a restart although the block history is the same", rnd)
}

// TestInvC08EvalIndependentOfRestart shows the consequence for block evaluation: the very same
// application call ( which merely asks whether its sender has opted in the "application" whose id
// is the id of an asset the sender holds ) has to be evaluated identically by a node that has the
// sender's holding in its cache and by a node that has just been restarted.
func TestInvC08EvalIndependentOfRestart(t *testing.T) {
	partitiontest.PartitionTest(t)

	genBalances, addrs, _ := ledgertesting.NewTestGenesis()
	cfg := config.GetDefaultLocal()
	l := newSimpleLedgerWithConsensusVersion(t, genBalances, protocol.ConsensusFuture, cfg)
	defer l.Close()
	invC08HoldTimerFlushes(l)

	creator := addrs[0]

	eval := nextBlock(t, l)
	txn(t, l, eval, &txntest.Txn{
		Type:        "acfg",
		Sender:      creator,
		AssetParams: basics.AssetParams{Total: 1000, UnitName: "inv", AssetName: "invC08"},
	})
	txn(t, l, eval, &txntest.Txn{
		Type:   "appl",
		Sender: creator,
		// is the sender opted in the app given as first foreign app ? whatever the answer, approve.
		ApprovalProgram: main("txn Sender; txn Applications 1; app_opted_in; pop"),
	})
	vb := endBlock(t, l, eval)
	asaID := vb.Block().Payset[0].ApplyData.ConfigAsset
	appID := vb.Block().Payset[1].ApplyData.ApplicationID

	call := func(note string) *txntest.Txn {
		return &txntest.Txn{
			Type:          "appl",
			Sender:        creator,
			ApplicationID: appID,
			ForeignApps:   []basics.AppIndex{basics.AppIndex(asaID)},
			Note:          []byte(note),
		}
	}

	lookback := int(cfg.MaxAcctLookback)
	invC08EmptyBlocks(t, l, 3*lookback)
	triggerTrackerFlush(t, l)
	invC08HoldTimerFlushes(l)
	require.GreaterOrEqual(t, l.trackers.getDbRound(), basics.Round(1))

	// node with a warm cache: the call is fine.
	eval = nextBlock(t, l)
	require.NoError(t, txgroup(t, l, eval, call("warm")), "call evaluated with a warm cache")
	// ( the block is abandoned: both evaluations start from the very same ledger state )

	// restarted node: same state, the call has to be just as fine.
	require.NoError(t, l.reloadLedger())
	invC08HoldTimerFlushes(l)
	eval = nextBlock(t, l)
	require.NoError(t, txgroup(t, l, eval, call("warm")), "the same call evaluated after a restart")
}
