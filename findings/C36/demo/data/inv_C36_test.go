package data

import (
	"path/filepath"
	"testing"
	"time"

	"github.com/stretchr/testify/require"

	"github.com/algorand/go-algorand/config"
	"github.com/algorand/go-algorand/crypto"
	"github.com/algorand/go-algorand/data/account"
	"github.com/algorand/go-algorand/data/basics"
	"github.com/algorand/go-algorand/data/bookkeeping"
	"github.com/algorand/go-algorand/logging"
	"github.com/algorand/go-algorand/protocol"
	"github.com/algorand/go-algorand/test/partitiontest"
	"github.com/algorand/go-algorand/util/db"
)

// invC36Node is the part of a node that owns participation keys: a
// participation registry database, an AccountManager, and the participation
// key files found in the data directory.  start() does what
// AlgorandFullNode.loadParticipationKeys does for one key file, advance() does
// what AlgorandFullNode.oldKeyDeletionThread does for each new block.
type invC36Node struct {
	t        *testing.T
	dir      string
	registry account.ParticipationRegistry
	mgr      *AccountManager
	handles  []db.Accessor
}

const invC36PartFile = "addr.241.280.partkey"

func invC36Start(t *testing.T, dir string) *invC36Node {
	log := logging.TestingLog(t)
	log.SetLevel(logging.Error)

	pair, err := db.OpenErasablePair(filepath.Join(dir, "partregistry.sqlite"))
	require.NoError(t, err)
	registry, err := account.MakeParticipationRegistry(pair, log)
	require.NoError(t, err)

	n := &invC36Node{t: t, dir: dir, registry: registry, mgr: MakeAccountManager(log, registry)}

	// node.loadParticipationKeys, for the one key file of this data directory
	handle, err := db.MakeErasableAccessor(filepath.Join(dir, invC36PartFile))
	require.NoError(t, err)
	part, err := account.RestoreParticipationWithSecrets(handle)
	require.NoError(t, err)
	if added := n.mgr.AddParticipation(part, false); !added {
		part.Close()
	} else {
		n.handles = append(n.handles, handle)
	}
	require.NoError(t, registry.Flush(10*time.Second))
	return n
}

// advance reports blocks from+1 .. to to the key deletion logic.
func (n *invC36Node) advance(from, to basics.Round) {
	proto := config.Consensus[protocol.ConsensusCurrentVersion]
	for r := from + 1; r <= to; r++ {
		n.mgr.DeleteOldKeys(bookkeeping.BlockHeader{Round: r}, proto)
		require.NoError(n.t, n.registry.Flush(10*time.Second))
	}
}

func (n *invC36Node) stop() {
	n.registry.Close()
	for _, h := range n.handles {
		h.Close()
	}
}

// canSign reports whether the voting secrets produce a vote signature for rnd
// that verifies under the key's one-time signature verifier.
func invC36CanSign(s *crypto.OneTimeSignatureSecrets, rnd basics.Round, keyDilution uint64) bool {
	id := basics.OneTimeIDForRound(rnd, keyDilution)
	msg := bookkeeping.BlockHeader{Round: rnd}
	return s.OneTimeSignatureVerifier.Verify(id, msg, s.Sign(id, msg))
}

// TestInvC36ForwardSecureAcrossRestart: a node that keeps a participation key
// file in its data directory is restarted, and keeps following the chain.  Once
// the node moved its voting keys past a round, the secrets it keeps (on disk,
// and after one more restart in memory) must not sign a vote for that round.
func TestInvC36ForwardSecureAcrossRestart(t *testing.T) {
	partitiontest.PartitionTest(t)

	baseLevel := logging.Base().GetLevel()
	logging.Base().SetLevel(logging.Error) // Sign() warns through the base logger for each refused round
	defer logging.Base().SetLevel(baseLevel)

	// the key's validity range includes round 256, so that the key comes with a state proof key
	const base = basics.Round(240)
	const firstValid, lastValid, keyDilution = base + 1, base + 40, uint64(4)
	dir := t.TempDir()

	// the operator generates a key file and drops it in the data directory
	{
		store, err := db.MakeErasableAccessor(filepath.Join(dir, invC36PartFile))
		require.NoError(t, err)
		var addr basics.Address
		crypto.RandBytes(addr[:])
		_, err = account.FillDBWithParticipationKeys(store, addr, firstValid, lastValid, keyDilution)
		require.NoError(t, err)
		store.Close()
	}

	// first run: blocks base+1..base+10
	n := invC36Start(t, dir)
	n.advance(base, base+10)
	n.stop()

	// second run: blocks base+11..base+20
	n = invC36Start(t, dir)
	n.advance(base+10, base+20)
	keys := n.mgr.Keys(base + 21)
	require.Len(t, keys, 1)
	for r := firstValid; r <= base+20; r++ {
		require.False(t, invC36CanSign(keys[0].Voting, r, keyDilution), "running node signs for past round %d", r)
	}
	for r := base + 21; r <= lastValid; r++ {
		require.True(t, invC36CanSign(keys[0].Voting, r, keyDilution), "running node cannot sign for round %d", r)
	}
	n.stop()

	// The node has advanced its voting keys to round base+21.  What it stores
	// must not be able to vote in rounds up to base+20 any more.
	{
		store, err := db.MakeErasableAccessor(filepath.Join(dir, invC36PartFile))
		require.NoError(t, err)
		part, err := account.RestoreParticipation(store)
		require.NoError(t, err)
		var stale []basics.Round
		for r := firstValid; r <= base+20; r++ {
			if invC36CanSign(part.Voting, r, keyDilution) {
				stale = append(stale, r)
			}
		}
		store.Close()
		if len(stale) > 0 {
			t.Errorf("after advancing to round %d, the key file still signs valid votes for past rounds %v", base+21, stale)
		}
	}

	// third run: blocks up to the end of the key's life and a little beyond;
	// the registry drops the expired key.
	n = invC36Start(t, dir)
	n.advance(base+20, lastValid+2)
	require.Empty(t, n.registry.GetAll())
	n.stop()

	// fourth run: the node must not get back the ability to vote in rounds it
	// has moved past.
	n = invC36Start(t, dir)
	var stale []basics.Round
	for r := firstValid; r <= lastValid; r++ {
		for _, k := range n.mgr.Keys(r) {
			if invC36CanSign(k.Voting, r, keyDilution) {
				stale = append(stale, r)
			}
		}
	}
	n.stop()
	if len(stale) > 0 {
		t.Errorf("after a restart the node signs valid votes for past rounds %v", stale)
	}
}
