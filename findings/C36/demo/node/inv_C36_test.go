package node

import (
	"os"
	"path/filepath"
	"testing"
	"time"

	"github.com/stretchr/testify/require"

	"github.com/algorand/go-algorand/config"
	"github.com/algorand/go-algorand/crypto"
	"github.com/algorand/go-algorand/data/account"
	"github.com/algorand/go-algorand/data/basics"
	"github.com/algorand/go-algorand/data/bookkeeping"
	"github.com/algorand/go-algorand/logging"
	"github.com/algorand/go-algorand/protocol"
	"github.com/algorand/go-algorand/test/partitiontest"
	"github.com/algorand/go-algorand/util/db"
)

// invC36CanSign reports whether the voting secrets produce a vote signature
// for rnd that verifies under the key's one-time signature verifier.
func invC36CanSign(s *crypto.OneTimeSignatureSecrets, rnd basics.Round, keyDilution uint64) bool {
	id := basics.OneTimeIDForRound(rnd, keyDilution)
	msg := bookkeeping.BlockHeader{Round: rnd}
	return s.OneTimeSignatureVerifier.Verify(id, msg, s.Sign(id, msg))
}

// TestInvC36NodeForwardSecureAcrossRestart: a node has a participation key
// file in its data directory (the way `goal network create` and operators who
// copy `algokey part generate` output install keys).  The node is restarted and
// keeps following the chain.  Once the node has moved its voting keys past a
// round, what it keeps must not be able to sign a vote for that round.
//
// The node is made with MakeFull and stopped with Stop; the blocks are reported
// to it the way oldKeyDeletionThread does (AccountManager.DeleteOldKeys then
// Registry().Flush), so that the test does not need a network of voting nodes.
func TestInvC36NodeForwardSecureAcrossRestart(t *testing.T) {
	partitiontest.PartitionTest(t)

	// the key's validity range includes round 256, so that the key comes with a state proof key
	const base = basics.Round(240)
	const firstValid, lastValid, keyDilution = base + 1, base + 40, uint64(4)

	testDirectory := t.TempDir()
	genesis := bookkeeping.Genesis{
		SchemaID:    "go-test-node-genesis",
		Proto:       protocol.ConsensusCurrentVersion,
		Network:     config.Devtestnet,
		FeeSink:     sinkAddr.String(),
		RewardsPool: poolAddr.String(),
	}
	cfg := config.GetDefaultLocal()
	log := logging.NewLogger()
	log.SetLevel(logging.Error)
	baseLevel := logging.Base().GetLevel()
	logging.Base().SetLevel(logging.Error) // Sign() warns through the base logger for each refused round
	defer logging.Base().SetLevel(baseLevel)

	genesisDir := filepath.Join(testDirectory, genesis.ID())
	require.NoError(t, os.MkdirAll(genesisDir, 0700))
	partFile := filepath.Join(genesisDir, config.PartKeyFilename("wallet", uint64(firstValid), uint64(lastValid)))
	{
		store, err := db.MakeErasableAccessor(partFile)
		require.NoError(t, err)
		var addr basics.Address
		crypto.RandBytes(addr[:])
		_, err = account.FillDBWithParticipationKeys(store, addr, firstValid, lastValid, keyDilution)
		require.NoError(t, err)
		store.Close()
	}

	proto := config.Consensus[protocol.ConsensusCurrentVersion]
	start := func() *AlgorandFullNode {
		n, err := MakeFull(log, testDirectory, cfg, []string{}, genesis)
		require.NoError(t, err)
		require.NoError(t, n.Start())
		return n
	}
	// blocks from+1 .. to are added to the ledger: what oldKeyDeletionThread does for each
	advance := func(n *AlgorandFullNode, from, to basics.Round) {
		for r := from + 1; r <= to; r++ {
			n.mu.Lock()
			n.accountManager.DeleteOldKeys(bookkeeping.BlockHeader{Round: r}, proto)
			n.mu.Unlock()
			require.NoError(t, n.accountManager.Registry().Flush(10*time.Second))
		}
	}

	// first run: blocks base+1..base+10
	n := start()
	advance(n, base, base+10)
	n.Stop()

	// second run: blocks base+11..base+20
	n = start()
	advance(n, base+10, base+20)
	keys := n.accountManager.Keys(base + 21)
	require.Len(t, keys, 1)
	for r := firstValid; r <= base+20; r++ {
		require.False(t, invC36CanSign(keys[0].Voting, r, keyDilution), "running node signs for past round %d", r)
	}
	for r := base + 21; r <= lastValid; r++ {
		require.True(t, invC36CanSign(keys[0].Voting, r, keyDilution), "running node cannot sign for round %d", r)
	}
	n.Stop()

	// The node has advanced its voting keys to round base+21.  What it stores
	// must not be able to vote in rounds up to base+20 any more.
	{
		store, err := db.MakeErasableAccessor(partFile)
		require.NoError(t, err)
		part, err := account.RestoreParticipation(store)
		require.NoError(t, err)
		var stale []basics.Round
		for r := firstValid; r <= base+20; r++ {
			if invC36CanSign(part.Voting, r, keyDilution) {
				stale = append(stale, r)
			}
		}
		store.Close()
		if len(stale) > 0 {
			t.Errorf("after advancing to round %d, the node's key file still signs valid votes for past rounds %v", base+21, stale)
		}
	}

	// third run: blocks up to the end of the key's life and a little beyond;
	// the registry drops the expired key.
	n = start()
	advance(n, base+20, lastValid+2)
	require.Empty(t, n.accountManager.Registry().GetAll())
	n.Stop()

	// fourth run: the node must not get back the ability to vote in rounds it
	// has moved past.
	n = start()
	var stale []basics.Round
	for r := firstValid; r <= lastValid; r++ {
		for _, k := range n.accountManager.Keys(r) {
			if invC36CanSign(k.Voting, r, keyDilution) {
				stale = append(stale, r)
			}
		}
	}
	// no write of this or an earlier run may have failed
	require.NoError(t, n.accountManager.Registry().Flush(10*time.Second))
	n.Stop()
	if len(stale) > 0 {
		t.Errorf("after a restart the node signs valid votes for past rounds %v", stale)
	}
}
