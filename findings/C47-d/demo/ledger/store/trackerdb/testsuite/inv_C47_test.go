package testsuite

import (
	"fmt"
	"testing"

	"github.com/stretchr/testify/require"

	"github.com/algorand/go-algorand/config"
	"github.com/algorand/go-algorand/data/basics"
	"github.com/algorand/go-algorand/ledger/store/trackerdb"
	"github.com/algorand/go-algorand/ledger/store/trackerdb/pebbledbdriver"
	"github.com/algorand/go-algorand/ledger/store/trackerdb/sqlitedriver"
	"github.com/algorand/go-algorand/logging"
	"github.com/algorand/go-algorand/protocol"
	"github.com/algorand/go-algorand/test/partitiontest"
)

// onlineView is the backend independent part of a PersistedOnlineAccountData
// (the Ref is an opaque, engine specific handle: only its presence is comparable).
type onlineView string

func viewOf(p trackerdb.PersistedOnlineAccountData) onlineView {
	return onlineView(fmt.Sprintf("found=%v updRound=%d dbRound=%d data=%x", p.Ref != nil, p.UpdRound, p.Round, protocol.Encode(&p.AccountData)))
}

// TestInvC47OnlineAccountsDeleteBoundary applies the same history of online account writes, followed by the
// same OnlineAccountsDelete(forgetBefore), to the SQLite and to the Pebble backend, and requires the same
// answers from both afterwards. The rows whose update round is exactly forgetBefore are the interesting ones:
// "forget before R" must leave the rows of round R (and the latest online row before R) alone.
func TestInvC47OnlineAccountsDeleteBoundary(t *testing.T) {
	partitiontest.PartitionTest(t)

	proto := config.Consensus[protocol.ConsensusCurrentVersion]

	sqlDB, err := sqlitedriver.Open(fmt.Sprintf("%s/tracker-db.sqlite", t.TempDir()), false, logging.TestingLog(t))
	require.NoError(t, err)
	defer sqlDB.Close()
	seedDb(t, sqlDB)

	kvDB, err := pebbledbdriver.Open(fmt.Sprintf("%s/db", t.TempDir()), false, proto, logging.TestingLog(t))
	require.NoError(t, err)
	defer kvDB.Close()
	seedDb(t, kvDB)

	addrA := RandomAddress() // online at round 1, re-registers at round 2
	addrB := RandomAddress() // online at round 1, goes offline at round 2

	online := func(algos uint64, lastValid basics.Round) trackerdb.BaseOnlineAccountData {
		return trackerdb.BaseOnlineAccountData{
			BaseVotingData: trackerdb.BaseVotingData{VoteKeyDilution: 1, VoteLastValid: lastValid},
			MicroAlgos:     basics.MicroAlgos{Raw: algos},
		}
	}
	offline := trackerdb.BaseOnlineAccountData{} // empty voting data

	const forgetBefore = basics.Round(2)

	type answers struct {
		lookups map[string]onlineView
		history map[string][]onlineView
	}

	run := func(db trackerdb.Store) answers {
		oaw, err := db.MakeOnlineAccountsOptimizedWriter(true)
		require.NoError(t, err)
		oar, err := db.MakeOnlineAccountsOptimizedReader()
		require.NoError(t, err)
		aw, err := db.MakeAccountsWriter()
		require.NoError(t, err)

		require.NoError(t, aw.UpdateAccountsRound(3))

		insert := func(addr basics.Address, d trackerdb.BaseOnlineAccountData, rnd uint64) {
			_, err := oaw.InsertOnlineAccount(addr, d.NormalizedOnlineBalance(proto.RewardUnit), d, rnd, uint64(d.VoteLastValid))
			require.NoError(t, err)
		}
		insert(addrA, online(100, 1000), 1)
		insert(addrB, online(200, 1000), 1)
		insert(addrA, online(150, 2000), 2)
		insert(addrB, offline, 2)

		require.NoError(t, aw.OnlineAccountsDelete(forgetBefore))

		res := answers{lookups: map[string]onlineView{}, history: map[string][]onlineView{}}
		for name, addr := range map[string]basics.Address{"A": addrA, "B": addrB} {
			for rnd := basics.Round(0); rnd <= 3; rnd++ {
				p, err := oar.LookupOnline(addr, rnd)
				require.NoError(t, err)
				res.lookups[fmt.Sprintf("%s@%d", name, rnd)] = viewOf(p)
			}
			hist, _, err := oar.LookupOnlineHistory(addr)
			require.NoError(t, err)
			for _, p := range hist {
				res.history[name] = append(res.history[name], viewOf(p))
			}
		}
		return res
	}

	sqlRes := run(sqlDB)
	kvRes := run(kvDB)

	require.Equal(t, sqlRes.history, kvRes.history, "LookupOnlineHistory differs between sqlite and pebble after OnlineAccountsDelete(%d)", forgetBefore)
	require.Equal(t, sqlRes.lookups, kvRes.lookups, "LookupOnline differs between sqlite and pebble after OnlineAccountsDelete(%d)", forgetBefore)
}
