// Copyright (C) 2019-2026 Algorand Foundation Ltd.
// This file is part of go-algorand
//
// go-algorand is free software: you can redistribute it and/or modify
// it under the terms of the GNU Affero General Public License as
// published by the Free Software Foundation, either version 3 of the
// License, or (at your option) any later version.
//
// go-algorand is distributed in the hope that it will be useful,
// but WITHOUT ANY WARRANTY; without even the implied warranty of
// MERCHANTABILITY or FITNESS FOR A PARTICULAR PURPOSE.  See the
// GNU Affero General Public License for more details.
//
// You should have received a copy of the GNU Affero General Public License
// along with go-algorand.  If not, see <https://www.gnu.org/licenses/>.

package ledger

import (
	"fmt"
	"testing"

	"github.com/stretchr/testify/require"

	"github.com/algorand/go-algorand/config"
	"github.com/algorand/go-algorand/data/basics"
	"github.com/algorand/go-algorand/ledger/ledgercore"
	"github.com/algorand/go-algorand/ledger/store/trackerdb"
	ledgertesting "github.com/algorand/go-algorand/ledger/testing"
	"github.com/algorand/go-algorand/protocol"
	"github.com/algorand/go-algorand/test/partitiontest"
)

// invC13HookedOnlineReader wraps the tracker's prepared-statement reader so that the test can
// pick the exact point of the schedule at which the (otherwise asynchronous) commitSyncer work runs:
// right after lookupOnlineAccountData finished reading the account history from the DB
// and before it re-takes accountsMu to populate onlineAccountsCache.
// At that point lookupOnlineAccountData holds none of the tracker's locks, so nothing prevents
// trackerRegistry.commitRound (commitRound + postCommit) from running to completion.
type invC13HookedOnlineReader struct {
	trackerdb.OnlineAccountsReader
	afterHistory func()
}

func (h *invC13HookedOnlineReader) LookupOnlineHistory(addr basics.Address) ([]trackerdb.PersistedOnlineAccountData, basics.Round, error) {
	res, rnd, err := h.OnlineAccountsReader.LookupOnlineHistory(addr)
	if f := h.afterHistory; f != nil {
		h.afterHistory = nil
		f()
	}
	return res, rnd, err
}

// TestInvC13OnlineStakeAcrossFlushSchedules checks that the online account data served to agreement
// (Ledger.LookupAgreement -> onlineAccounts.lookupOnlineAccountData) for a round equals what the block
// history implies at that round, regardless of when the tracker flush (commitRound+postCommit) happens
// relative to a concurrent lookup, and that the answer is the same after a restart.
func TestInvC13OnlineStakeAcrossFlushSchedules(t *testing.T) {
	partitiontest.PartitionTest(t)

	const seedLookback = 2
	const seedInterval = 3
	const maxBalLookback = 2 * seedLookback * seedInterval // 12

	testProtocolVersion := protocol.ConsensusVersion("test-protocol-TestInvC13OnlineStake")
	protoParams := config.Consensus[protocol.ConsensusCurrentVersion]
	protoParams.MaxBalLookback = maxBalLookback
	protoParams.SeedLookback = seedLookback
	protoParams.SeedRefreshInterval = seedInterval
	config.Consensus[testProtocolVersion] = protoParams
	defer func() {
		delete(config.Consensus, testProtocolVersion)
	}()

	const changeRound = basics.Round(17) // the round at which addrB's online state changes
	const lastRound = basics.Round(32)

	type scenario struct {
		name string
		// commitDuringLookup: the flush of changeRound runs while a lookup is between its DB read and its cache fill.
		// otherwise the very same flush runs right after that lookup returned.
		commitDuringLookup bool
		goOffline          bool
	}
	scenarios := []scenario{
		{name: "stake-change/flush-after-lookup", commitDuringLookup: false, goOffline: false},
		{name: "stake-change/flush-during-lookup", commitDuringLookup: true, goOffline: false},
		{name: "go-offline/flush-after-lookup", commitDuringLookup: false, goOffline: true},
		{name: "go-offline/flush-during-lookup", commitDuringLookup: true, goOffline: true},
	}

	for _, sc := range scenarios {
		t.Run(sc.name, func(t *testing.T) {
			genesisAccts := []map[basics.Address]basics.AccountData{{}}
			for i := 0; i < 10; i++ {
				genesisAccts[0][ledgertesting.RandomAddress()] = ledgertesting.RandomOnlineAccountData(0)
			}
			addSinkAndPoolAccounts(genesisAccts)

			ml := makeMockLedgerForTracker(t, true, 1, testProtocolVersion, genesisAccts)
			defer ml.Close()

			conf := config.GetDefaultLocal() // MaxAcctLookback = 4
			au, oa := newAcctUpdates(t, ml, conf)
			_, totals, err := au.LatestTotals()
			require.NoError(t, err)

			addrB := ledgertesting.RandomAddress()
			stake1 := basics.MicroAlgos{Raw: 100_000_000}
			stake2 := basics.MicroAlgos{Raw: 500_000_000}
			online1 := ledgercore.AccountData{
				AccountBaseData: ledgercore.AccountBaseData{Status: basics.Online, MicroAlgos: stake1},
				VotingData:      basics.VotingData{VoteFirstValid: 1, VoteLastValid: 100000, VoteKeyDilution: 7},
			}
			online2 := online1
			online2.MicroAlgos = stake2
			offline2 := ledgercore.AccountData{
				AccountBaseData: ledgercore.AccountBaseData{Status: basics.Offline, MicroAlgos: stake1},
			}

			// expected is what the block history implies for addrB at the end of round rnd
			expected := func(rnd basics.Round) basics.OnlineAccountData {
				switch {
				case rnd < 1:
					return basics.OnlineAccountData{}
				case rnd < changeRound:
					return online1.OnlineAccountData(protoParams.RewardUnit, 0)
				case sc.goOffline:
					return basics.OnlineAccountData{}
				default:
					return online2.OnlineAccountData(protoParams.RewardUnit, 0)
				}
			}

			accounts := genesisAccts
			addBlock := func(rnd basics.Round) {
				var updates ledgercore.AccountDeltas
				switch rnd {
				case 1:
					updates.Upsert(addrB, online1)
				case changeRound:
					if sc.goOffline {
						updates.Upsert(addrB, offline2)
					} else {
						updates.Upsert(addrB, online2)
					}
				}
				base := accounts[rnd-1]
				accounts = append(accounts, applyPartialDeltas(base, updates))
				totals = newBlock(t, ml, testProtocolVersion, protoParams, rnd, base, updates, totals)
			}

			// summary renders the fields agreement cares about
			summary := func(d basics.OnlineAccountData) string {
				return fmt.Sprintf("stake=%d voteFirst=%d voteLast=%d keyDilution=%d", d.MicroAlgosWithRewards.Raw, d.VoteFirstValid, d.VoteLastValid, d.VoteKeyDilution)
			}

			// agreementLookup is what agreement does when it is about to vote in round latest+1:
			// it asks the ledger for the account at the balance round.
			agreementLookup := func() (basics.Round, basics.OnlineAccountData) {
				voteRnd := ml.Latest() + 1
				balRnd := voteRnd.SubSaturate(maxBalLookback)
				data, err0 := oa.lookupOnlineAccountData(balRnd, addrB)
				require.NoError(t, err0)
				return balRnd, data
			}

			// rounds 1..20 : addrB goes online in round 1, changes in round 17.
			// Nobody looks addrB up, so it is not in onlineAccountsCache (it is only added there on lookup).
			for rnd := basics.Round(1); rnd <= 20; rnd++ {
				addBlock(rnd)
				commitSync(t, oa, ml, rnd)
			}
			require.Equal(t, basics.Round(16), oa.cachedDBRoundOnline)
			_, cached := oa.onlineAccountsCache.accounts[addrB]
			require.False(t, cached)

			// round 21 gets added, its flush (db round 16 -> 17, i.e. exactly changeRound) is due.
			addBlock(21)
			flush := func() {
				done := make(chan struct{})
				go func() {
					defer close(done)
					commitSync(t, oa, ml, 21)
				}()
				<-done
				require.Equal(t, changeRound, oa.cachedDBRoundOnline)
			}

			if sc.commitDuringLookup {
				hooked := &invC13HookedOnlineReader{OnlineAccountsReader: oa.accountsq, afterHistory: flush}
				oa.accountsq = hooked
				balRnd, data := agreementLookup()
				require.Nil(t, hooked.afterHistory, "the lookup was expected to go to the DB")
				require.Equal(t, expected(balRnd), data)
			} else {
				balRnd, data := agreementLookup()
				require.Equal(t, expected(balRnd), data)
				flush()
			}

			// keep going: agreement asks for the balance round on every round.
			// Once the balance round reaches changeRound the answer must reflect the change.
			for rnd := basics.Round(22); rnd <= lastRound; rnd++ {
				addBlock(rnd)
				commitSync(t, oa, ml, rnd)
				balRnd, data := agreementLookup()
				require.Equalf(t, summary(expected(balRnd)), summary(data),
					"latest=%d dbRound=%d: LookupAgreement(%d, addrB) does not match the block history", rnd, oa.cachedDBRoundOnline, balRnd)
				require.Equal(t, expected(balRnd), data)
			}

			// restart: reload the trackers from the same DB and the same blocks, and compare the answers.
			beforeRestart := make(map[basics.Round]basics.OnlineAccountData)
			first := (lastRound + 1).SubSaturate(maxBalLookback)
			for rnd := first; rnd <= lastRound; rnd++ {
				data, err0 := oa.lookupOnlineAccountData(rnd, addrB)
				require.NoError(t, err0)
				beforeRestart[rnd] = data
			}
			ml.trackers.close()
			_, oa2 := newAcctUpdates(t, ml, conf)
			for rnd := first; rnd <= lastRound; rnd++ {
				data, err0 := oa2.lookupOnlineAccountData(rnd, addrB)
				require.NoError(t, err0)
				require.Equal(t, expected(rnd), data, fmt.Sprintf("after restart, round %d", rnd))
				require.Equal(t, beforeRestart[rnd], data, fmt.Sprintf("answer for round %d changed across a restart", rnd))
			}
		})
	}
}
