// Copyright (C) 2019-2026 Algorand, Inc.
// This file is part of go-algorand
//
// go-algorand is free software: you can redistribute it and/or modify
// it under the terms of the GNU Affero General Public License as
// published by the Free Software Foundation, either version 3 of the
// License, or (at your option) any later version.
//
// go-algorand is distributed in the hope that it will be useful,
// but WITHOUT ANY WARRANTY; without even the implied warranty of
// MERCHANTABILITY or FITNESS FOR A PARTICULAR PURPOSE.  See the
// GNU Affero General Public License for more details.
//
// You should have received a copy of the GNU Affero General Public License
// along with go-algorand.  If not, see <https://www.gnu.org/licenses/>.

package ledger

import (
	"sync"
	"testing"
	"time"

	"github.com/stretchr/testify/require"

	"github.com/algorand/go-algorand/config"
	"github.com/algorand/go-algorand/data/basics"
	"github.com/algorand/go-algorand/data/bookkeeping"
	"github.com/algorand/go-algorand/ledger/store/trackerdb"
	ledgertesting "github.com/algorand/go-algorand/ledger/testing"
	"github.com/algorand/go-algorand/logging"
	"github.com/algorand/go-algorand/protocol"
	"github.com/algorand/go-algorand/test/partitiontest"
)

// invC08FlushBeforeAccountRead wraps the optimized accounts reader of the
// accountUpdates tracker. The first account read it serves is preceded by a
// complete tracker commit (prepareCommit, commitRound, postCommit) executed on
// another goroutine. This reproduces, deterministically, the schedule in which
// the commitSyncer goroutine flushes rounds to disk after a reader has released
// accountsMu and before it runs its SQL query - a window the lookup functions
// are explicitly written to tolerate ("delta walk then DB lookup with round
// re-check").
type invC08FlushBeforeAccountRead struct {
	trackerdb.AccountsReader
	once  sync.Once
	flush func()
	fired bool
}

func (r *invC08FlushBeforeAccountRead) LookupAccount(addr basics.Address) (trackerdb.PersistedAccountData, error) {
	r.once.Do(func() {
		done := make(chan struct{})
		go func() {
			defer close(done)
			r.flush()
		}()
		<-done
		r.fired = true
	})
	return r.AccountsReader.LookupAccount(addr)
}

// invC08HoldTimerFlushes prevents trackerRegistry.scheduleCommit from flushing on its own,
// so that the test decides exactly when rounds reach the disk.
func invC08HoldTimerFlushes(l *Ledger) {
	l.trackers.mu.Lock()
	l.trackers.lastFlushTime = time.Now().Add(time.Hour)
	l.trackers.mu.Unlock()
}

// TestInvC08LookupAccountIndependentOfConcurrentFlush checks that Ledger.LookupAccount(rnd, addr),
// for a round the ledger serves before and after a tracker commit, answers with the state obtained
// by applying exactly the blocks up to rnd to genesis, no matter whether a commit completes while
// the lookup is in flight.
func TestInvC08LookupAccountIndependentOfConcurrentFlush(t *testing.T) {
	partitiontest.PartitionTest(t)

	protoVersion := protocol.ConsensusCurrentVersion
	proto := config.Consensus[protoVersion]

	genesisInitState, _ := ledgertesting.GenerateInitState(t, protoVersion, 100)
	// fund the rewards pool generously, so that the rewards level grows on every round.
	pool := genesisInitState.Accounts[testPoolAddr]
	pool.MicroAlgos.Raw = 500_000_000_000_000
	genesisInitState.Accounts[testPoolAddr] = pool
	genesisBalances := bookkeeping.MakeTimestampedGenesisBalances(genesisInitState.Accounts, testSinkAddr, testPoolAddr, 0)
	genesisBlock, err := bookkeeping.MakeGenesisBlock(protoVersion, genesisBalances, t.Name(), genesisInitState.GenesisHash)
	require.NoError(t, err)
	genesisBlock.TxnCommitments, err = genesisBlock.PaysetCommit()
	require.NoError(t, err)
	genesisInitState.Block = genesisBlock

	// pick a rewards-earning genesis account that no block is ever going to touch.
	var addr basics.Address
	var genesisData basics.AccountData
	for a, ad := range genesisInitState.Accounts {
		if a == testPoolAddr || a == testSinkAddr || ad.Status == basics.NotParticipating {
			continue
		}
		if ad.MicroAlgos.RewardUnits(proto.RewardUnit) > 0 {
			addr, genesisData = a, ad
			break
		}
	}
	require.False(t, addr.IsZero())

	cfg := config.GetDefaultLocal()
	require.NotZero(t, cfg.MaxAcctLookback)
	lookback := basics.Round(cfg.MaxAcctLookback)

	log := logging.TestingLog(t)
	log.SetLevel(logging.Warn)
	l, err := OpenLedger(log, t.Name(), true, genesisInitState, cfg)
	require.NoError(t, err)
	defer l.Close()
	invC08HoldTimerFlushes(l)

	// history, part 1: a few empty blocks, flushed to disk.
	for i := basics.Round(0); i < 2*lookback; i++ {
		addEmptyValidatedBlock(t, l, genesisInitState.Accounts)
	}
	l.WaitForCommit(l.Latest())
	triggerTrackerFlush(t, l)
	invC08HoldTimerFlushes(l)
	dbRoundBefore := l.trackers.getDbRound()
	require.Equal(t, l.Latest()-lookback, dbRoundBefore)

	// history, part 2: more empty blocks, kept in memory only.
	for i := basics.Round(0); i < 3*lookback; i++ {
		addEmptyValidatedBlock(t, l, genesisInitState.Accounts)
	}
	l.WaitForCommit(l.Latest())
	latest := l.Latest()
	require.Equal(t, dbRoundBefore, l.trackers.getDbRound(), "no flush expected while adding part 2")

	// the round we are going to query : served before the flush (> dbRoundBefore) and after it (>= latest-lookback).
	rnd := latest - 1
	require.Greater(t, rnd, dbRoundBefore)

	// the oracle: nothing but rewards ever happened to addr, so its state at rnd is the genesis state
	// with the rewards of block rnd applied.
	hdrRnd, err := l.BlockHdr(rnd)
	require.NoError(t, err)
	hdrLatest, err := l.BlockHdr(latest)
	require.NoError(t, err)
	require.Greater(t, hdrLatest.RewardsLevel, hdrRnd.RewardsLevel, "test setup: rewards level must grow on every round")
	expected := genesisData.WithUpdatedRewards(proto.RewardUnit, hdrRnd.RewardsLevel)
	require.Greater(t, expected.MicroAlgos.Raw, genesisData.MicroAlgos.Raw)

	// control: without a flush interleaving, the ledger agrees with the oracle.
	control, _, controlWithoutRewards, err := l.LookupAccount(rnd, addr)
	require.NoError(t, err)
	require.Equal(t, expected.MicroAlgos, control.MicroAlgos)
	require.Equal(t, genesisData.MicroAlgos, controlWithoutRewards)

	// now let a tracker commit complete in the middle of the very same lookup.
	reader := &invC08FlushBeforeAccountRead{
		AccountsReader: l.accts.accountsq,
		flush: func() {
			triggerTrackerFlush(t, l)
		},
	}
	l.accts.accountsMu.Lock()
	l.accts.accountsq = reader
	l.accts.accountsMu.Unlock()
	defer func() {
		l.accts.accountsMu.Lock()
		l.accts.accountsq = reader.AccountsReader
		l.accts.accountsMu.Unlock()
	}()

	got, _, gotWithoutRewards, err := l.LookupAccount(rnd, addr)
	require.NoError(t, err)

	// make sure the schedule we meant to test did take place, and that rnd is still being served.
	require.True(t, reader.fired, "the lookup was expected to reach the database")
	dbRoundAfter := l.trackers.getDbRound()
	require.Equal(t, latest-lookback, dbRoundAfter)
	require.Greater(t, dbRoundAfter, dbRoundBefore, "a flush was expected to complete during the lookup")
	require.GreaterOrEqual(t, rnd, dbRoundAfter)
	require.Equal(t, latest, l.Latest())

	// the property: the answer for round rnd is a function of the blocks 1..rnd only.
	require.Equal(t, genesisData.MicroAlgos, gotWithoutRewards)
	require.Equalf(t, expected.MicroAlgos, got.MicroAlgos,
		"LookupAccount(%d) answered with the rewards of another round: level at %d is %d, level at latest round %d is %d, balance with latest level would be %d",
		rnd, rnd, hdrRnd.RewardsLevel, latest, hdrLatest.RewardsLevel,
		genesisData.WithUpdatedRewards(proto.RewardUnit, hdrLatest.RewardsLevel).MicroAlgos.Raw)
	require.Equal(t, control, got)

	// and once the flush is over, the same question gets the expected answer again.
	after, _, _, err := l.LookupAccount(rnd, addr)
	require.NoError(t, err)
	require.Equal(t, control, after)
}
