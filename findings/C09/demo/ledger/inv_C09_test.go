// Copyright (C) 2019-2026 Algorand Foundation Ltd.
// This file is part of go-algorand
//
// go-algorand is free software: you can redistribute it and/or modify
// it under the terms of the GNU Affero General Public License as
// published by the Free Software Foundation, either version 3 of the
// License, or (at your option) any later version.
//
// go-algorand is distributed in the hope that it will be useful,
// but WITHOUT ANY WARRANTY; without even the implied warranty of
// MERCHANTABILITY or FITNESS FOR A PARTICULAR PURPOSE.  See the
// GNU Affero General Public License for more details.
//
// You should have received a copy of the GNU Affero General Public License
// along with go-algorand.  If not, see <https://www.gnu.org/licenses/>.

package ledger

import (
	"fmt"
	"io"
	"os"
	"path/filepath"
	"testing"
	"time"

	"github.com/stretchr/testify/require"

	"github.com/algorand/go-algorand/config"
	"github.com/algorand/go-algorand/crypto"
	"github.com/algorand/go-algorand/data/basics"
	"github.com/algorand/go-algorand/data/bookkeeping"
	"github.com/algorand/go-algorand/data/transactions"
	"github.com/algorand/go-algorand/data/txntest"
	"github.com/algorand/go-algorand/ledger/ledgercore"
	ledgertesting "github.com/algorand/go-algorand/ledger/testing"
	"github.com/algorand/go-algorand/logging"
	"github.com/algorand/go-algorand/protocol"
	"github.com/algorand/go-algorand/test/partitiontest"
)

// Property C09: after a crash at any point while blocks are being written or
// tracker state committed, the reopened ledger holds a contiguous prefix of the
// added blocks that includes every block whose durable write was confirmed, and
// its state equals replaying exactly that prefix from genesis.
//
// The tests below build a short, ordinary history with the default node
// configuration (MaxAcctLookback = 4), one block at a time, each block being
// confirmed durable with WaitForCommit() - exactly what a node following a
// fresh network from genesis does. After every block a crash image of the
// on-disk files is taken and a new ledger is opened on it.

type invC09Env struct {
	t         *testing.T
	cfg       config.Local
	initState ledgercore.InitState
	addrs     []basics.Address
	dir       string
	images    int
}

func invC09Setup(t *testing.T) (*invC09Env, *Ledger) {
	genBalances, addrs, _ := ledgertesting.NewTestGenesis()
	cv := protocol.ConsensusCurrentVersion
	var genHash crypto.Digest
	crypto.RandBytes(genHash[:])
	genBlock, err := bookkeeping.MakeGenesisBlock(cv, genBalances, "test", genHash)
	require.NoError(t, err)

	env := &invC09Env{
		t:   t,
		cfg: config.GetDefaultLocal(), // in particular, MaxAcctLookback = 4
		initState: ledgercore.InitState{
			Block:       genBlock,
			Accounts:    genBalances.Balances,
			GenesisHash: genHash,
		},
		addrs: addrs,
		dir:   t.TempDir(),
	}
	env.cfg.Archival = true
	require.EqualValues(t, 4, env.cfg.MaxAcctLookback)

	live := filepath.Join(env.dir, "live")
	require.NoError(t, os.MkdirAll(live, 0700))
	l, err := OpenLedger(logging.Base(), filepath.Join(live, "ledger"), false, env.initState, env.cfg)
	require.NoError(t, err)
	return env, l
}

// quiesce waits until neither the block queue syncer nor the tracker commit
// syncer has anything left to do for the blocks added so far.
func invC09Quiesce(t *testing.T, l *Ledger) {
	l.WaitForCommit(l.Latest())
	// the syncer calls notifyCommit() (which may schedule a tracker commit) right
	// after waking the WaitForCommit() callers; give it a moment and then wait
	// for the tracker commit it may have scheduled.
	expected := l.Latest().SubSaturate(basics.Round(l.cfg.MaxAcctLookback))
	if expected > 1 {
		// after the first flush, the next ones are rate limited (balancesFlushInterval);
		// we only need the first one here.
		expected = 1
	}
	deadline := time.Now().Add(10 * time.Second)
	for l.trackers.getDbRound() < expected && time.Now().Before(deadline) {
		time.Sleep(10 * time.Millisecond)
	}
	time.Sleep(100 * time.Millisecond)
	l.trackers.waitAccountsWriting()
}

// crashImage copies the on-disk files of the (quiescent) live ledger to a fresh
// directory, i.e. what would be left on disk if the process was killed now.
func (env *invC09Env) crashImage(l *Ledger) string {
	t := env.t
	invC09Quiesce(t, l)
	env.images++
	dst := filepath.Join(env.dir, fmt.Sprintf("image%d", env.images))
	require.NoError(t, os.MkdirAll(dst, 0700))
	entries, err := os.ReadDir(filepath.Join(env.dir, "live"))
	require.NoError(t, err)
	for _, e := range entries {
		if e.IsDir() {
			continue
		}
		in, err := os.Open(filepath.Join(env.dir, "live", e.Name()))
		require.NoError(t, err)
		out, err := os.Create(filepath.Join(dst, e.Name()))
		require.NoError(t, err)
		_, err = io.Copy(out, in)
		require.NoError(t, err)
		require.NoError(t, out.Close())
		require.NoError(t, in.Close())
	}
	return filepath.Join(dst, "ledger")
}

func (env *invC09Env) reopen(prefix string) (*Ledger, error) {
	return OpenLedger(logging.Base(), prefix, false, env.initState, env.cfg)
}

// TestInvC09ReopenAfterEveryBlock: the reopened ledger must hold every
// confirmed block and the same balances as the ledger that was built from
// genesis, whatever the crash point.
func TestInvC09ReopenAfterEveryBlock(t *testing.T) {
	partitiontest.PartitionTest(t)

	env, l := invC09Setup(t)
	defer l.Close()
	addrs := env.addrs

	const rounds = 7
	for r := basics.Round(1); r <= rounds; r++ {
		eval := nextBlock(t, l)
		require.Equal(t, r, eval.Round())
		switch r {
		case 3:
			// an application that looks at the timestamp of the block before its
			// FirstValid, i.e. block 1 (`txn FirstValidTime`, available since v34)
			txn(t, l, eval, &txntest.Txn{
				Type:            "appl",
				Sender:          addrs[0],
				FirstValid:      2,
				ApprovalProgram: "txn FirstValidTime",
			})
		default:
			txn(t, l, eval, &txntest.Txn{Type: "pay", Sender: addrs[1], Receiver: addrs[2], Amount: uint64(1000 * r)})
		}
		endBlock(t, l, eval) // AddValidatedBlock + WaitForCommit: block r is confirmed durable

		image := env.crashImage(l)
		dbRound := l.trackers.getDbRound()

		l2, err := env.reopen(image)
		require.NoErrorf(t, err, "crash after block %d was confirmed (tracker db round %d): the ledger cannot be reopened", r, dbRound)

		require.Equalf(t, r, l2.Latest(), "crash after block %d was confirmed", r)
		for i := basics.Round(0); i <= r; i++ {
			want, err := l.Block(i)
			require.NoError(t, err)
			got, err := l2.Block(i)
			require.NoError(t, err)
			require.Equal(t, want.Digest(), got.Digest())
		}
		for _, a := range addrs {
			want, _, _, err := l.LookupLatest(a)
			require.NoError(t, err)
			got, _, _, err := l2.LookupLatest(a)
			require.NoError(t, err)
			require.Equal(t, want, got)
		}
		_, wantTotals, err := l.LatestTotals()
		require.NoError(t, err)
		_, gotTotals, err := l2.LatestTotals()
		require.NoError(t, err)
		require.Equal(t, wantTotals, gotTotals)
		l2.Close()
	}
}

// TestInvC09ReopenedLedgerRejectsReplayedTxn: the state of the reopened ledger
// must equal the state obtained by replaying the prefix from genesis. A ledger
// that evaluated blocks 1..5 from genesis refuses a block 6 that contains, a
// second time, the payment confirmed in block 1; so must the reopened one.
func TestInvC09ReopenedLedgerRejectsReplayedTxn(t *testing.T) {
	partitiontest.PartitionTest(t)

	env, l := invC09Setup(t)
	defer l.Close()
	addrs := env.addrs

	pay := txntest.Txn{Type: "pay", Sender: addrs[1], Receiver: addrs[2], Amount: 1_000_000, FirstValid: 1, LastValid: 500}
	for r := basics.Round(1); r <= 5; r++ {
		eval := nextBlock(t, l)
		if r == 1 {
			txn(t, l, eval, &pay)
		}
		endBlock(t, l, eval)
	}

	image := env.crashImage(l)
	l2, err := env.reopen(image)
	require.NoError(t, err)
	defer l2.Close()
	require.Equal(t, basics.Round(5), l2.Latest())

	stxn := pay.SignedTxn()
	proto := config.Consensus[protocol.ConsensusCurrentVersion]

	// the ledger built from genesis
	rnd, confirmed := l.CheckConfirmedTail(stxn.ID())
	require.True(t, confirmed)
	require.Equal(t, basics.Round(1), rnd)
	var tile *ledgercore.TransactionInLedgerError
	err = l.CheckDup(proto, 6, stxn.Txn.FirstValid, stxn.Txn.LastValid, stxn.ID(), ledgercore.Txlease{})
	require.ErrorAs(t, err, &tile)

	// the reopened ledger
	err = l2.CheckDup(proto, 6, stxn.Txn.FirstValid, stxn.Txn.LastValid, stxn.ID(), ledgercore.Txlease{})
	require.ErrorAsf(t, err, &tile, "reopened ledger (tracker db round %d) forgot the transaction confirmed in block 1", l2.trackers.getDbRound())

	// and end to end: block 6 = the same payment once more
	eval := nextBlock(t, l2)
	err = eval.TransactionGroup(transactions.WrapSignedTxnsWithAD([]transactions.SignedTxn{stxn})...)
	require.Error(t, err, "reopened ledger accepted a second copy of the payment confirmed in block 1")
}
