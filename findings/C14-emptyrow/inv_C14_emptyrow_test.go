// Copyright (C) 2019-2026 Algorand Foundation Ltd.
// This file is part of go-algorand
//
// go-algorand is free software: you can redistribute it and/or modify
// it under the terms of the GNU Affero General Public License as
// published by the Free Software Foundation, either version 3 of the
// License, or (at your option) any later version.
//
// go-algorand is distributed in the hope that it will be useful,
// but WITHOUT ANY WARRANTY; without even the implied warranty of
// MERCHANTABILITY or FITNESS FOR A PARTICULAR PURPOSE.  See the
// GNU Affero General Public License for more details.
//
// You should have received a copy of the GNU Affero General Public License
// along with go-algorand.  If not, see <https://www.gnu.org/licenses/>.

package ledger

import (
	"fmt"
	"path/filepath"
	"strconv"
	"testing"
	"time"

	"github.com/stretchr/testify/require"

	"github.com/algorand/go-algorand/config"
	"github.com/algorand/go-algorand/crypto"
	"github.com/algorand/go-algorand/data/basics"
	"github.com/algorand/go-algorand/data/bookkeeping"
	"github.com/algorand/go-algorand/data/txntest"
	"github.com/algorand/go-algorand/ledger/ledgercore"
	ledgertesting "github.com/algorand/go-algorand/ledger/testing"
	"github.com/algorand/go-algorand/logging"
	"github.com/algorand/go-algorand/protocol"
	"github.com/algorand/go-algorand/test/partitiontest"
)

// invC14cFlush persists everything up to Latest()-lookback, in this goroutine's
// time ( i.e. when it returns, the flush - if there was anything to flush - is done ).
func invC14cFlush(l *Ledger, lookback basics.Round) {
	l.WaitForCommit(l.Latest())

	l.trackers.mu.Lock()
	l.trackers.lastFlushTime = time.Time{}
	l.trackers.mu.Unlock()

	l.trackerMu.Lock()
	l.trackers.scheduleCommit(l.Latest(), lookback)
	l.trackers.waitAccountsWriting()
	l.trackerMu.Unlock()
}

// TestInvC14LabelAfterTrieRebuild gives the very same blocks to two ledgers that share one genesis.
// The first one tracks catchpoint labels from the start. The second one is first run with catchpoint
// tracking switched off, is then stopped, and is restarted with catchpoint tracking switched on ( so
// that it rebuilds its balances trie from its accounts tables on startup ). From that point on both
// track labels with the same settings, and both must publish the same label for the same catchpoint round.
func TestInvC14LabelAfterTrieRebuild(t *testing.T) {
	partitiontest.PartitionTest(t)
	// t.Parallel() NO! config.Consensus is modified

	// control : the genesis account that gets paid in round 1 holds algos at genesis.
	t.Run("funded-genesis-account", func(t *testing.T) { testInvC14LabelAfterTrieRebuild(t, 1_000_000) })
	// the genesis account that gets paid in round 1 is listed in the genesis allocation with no algos.
	t.Run("empty-genesis-account", func(t *testing.T) { testInvC14LabelAfterTrieRebuild(t, 0) })
}

func testInvC14LabelAfterTrieRebuild(t *testing.T, genesisAlgos uint64) {
	const catchpointLookback = 8
	const catchpointInterval = 16

	testProtocolVersion := protocol.ConsensusVersion(fmt.Sprintf("test-protocol-TestInvC14LabelAfterTrieRebuild-%d", genesisAlgos))
	protoParams := config.Consensus[protocol.ConsensusFuture]
	protoParams.CatchpointLookback = catchpointLookback
	config.Consensus[testProtocolVersion] = protoParams
	defer func() {
		delete(config.Consensus, testProtocolVersion)
	}()

	genBalances, addrs, _ := ledgertesting.NewTestGenesis()
	// one more account in the genesis allocation.
	var extra basics.Address
	extra[0] = 0xee
	extra[31] = 0x01
	genBalances.Balances[extra] = basics.AccountData{MicroAlgos: basics.MicroAlgos{Raw: genesisAlgos}}

	var genHash crypto.Digest
	crypto.RandBytes(genHash[:])
	genBlock, err := bookkeeping.MakeGenesisBlock(testProtocolVersion, genBalances, "test", genHash)
	require.NoError(t, err)
	initState := ledgercore.InitState{
		Block:       genBlock,
		Accounts:    genBalances.Balances,
		GenesisHash: genHash,
	}

	trackingCfg := config.GetDefaultLocal()
	trackingCfg.CatchpointInterval = catchpointInterval
	trackingCfg.CatchpointTracking = 1 // track the labels, don't write catchpoint files.
	notTrackingCfg := trackingCfg
	notTrackingCfg.CatchpointTracking = -1

	tempDir := t.TempDir()
	open := func(name string, cfg config.Local) *Ledger {
		l, err := OpenLedger(logging.Base(), filepath.Join(tempDir, name), false /* on disk */, initState, cfg)
		require.NoError(t, err)
		return l
	}

	always := open("always", trackingCfg)
	late := open("late", notTrackingCfg)
	dl := DoubleLedger{t: t, generator: always, validator: late, proposer: genBalances.FeeSink}
	defer func() { dl.Close() }()

	lookback := basics.Round(trackingCfg.MaxAcctLookback)
	labels := map[string]map[basics.Round]string{}
	recordLabel := func(l *Ledger, name string) {
		label := l.GetLastCatchpointLabel()
		if label == "" {
			return
		}
		rnd, _, err := ledgercore.ParseCatchpointLabel(label)
		require.NoError(t, err)
		if labels[name] == nil {
			labels[name] = make(map[basics.Round]string)
		}
		labels[name][rnd] = label
	}

	// every block is handed to both ledgers, and both flush right away.
	block := func(txns ...*txntest.Txn) {
		dl.fullBlock(txns...)
		invC14cFlush(dl.generator, lookback)
		invC14cFlush(dl.validator, lookback)
		recordLabel(dl.generator, "always")
		recordLabel(dl.validator, "late")
	}
	pay := txntest.Txn{
		Type:     "pay",
		Sender:   addrs[0],
		Receiver: addrs[1],
		Amount:   1000,
	}
	padTo := func(rnd basics.Round) {
		for dl.generator.Latest() < rnd {
			block(pay.Noted(strconv.Itoa(int(dl.generator.Latest()))))
		}
	}

	// round 1 : the extra genesis account receives a payment.
	fund := txntest.Txn{
		Type:     "pay",
		Sender:   addrs[0],
		Receiver: extra,
		Amount:   5_000_000,
	}
	block(&fund)

	// a few more rounds, so that round 1 is persisted by both ledgers.
	padTo(1 + lookback + 2)
	require.GreaterOrEqual(t, always.LatestTrackerCommitted(), basics.Round(1))
	require.Equal(t, always.LatestTrackerCommitted(), late.LatestTrackerCommitted())

	// the operator of the second node switches catchpoint tracking on, and restarts the node.
	late.Close()
	late = open("late", trackingCfg)
	dl.validator = late
	require.Equal(t, always.Latest(), late.Latest())
	require.Equal(t, always.LatestTrackerCommitted(), late.LatestTrackerCommitted())

	// run past catchpoint round 32
	padTo(basics.Round(2*catchpointInterval) + lookback + 1)

	// both ledgers hold the same blocks, persisted up to the same round, and agree on the extra account.
	require.Equal(t, always.Latest(), late.Latest())
	require.Equal(t, always.LatestTrackerCommitted(), late.LatestTrackerCommitted())
	alwaysHdr, err := always.BlockHdr(always.Latest())
	require.NoError(t, err)
	lateHdr, err := late.BlockHdr(late.Latest())
	require.NoError(t, err)
	require.Equal(t, alwaysHdr.Hash(), lateHdr.Hash())
	alwaysExtra, _, _, err := always.LookupLatest(extra)
	require.NoError(t, err)
	lateExtra, _, _, err := late.LookupLatest(extra)
	require.NoError(t, err)
	require.Equal(t, alwaysExtra, lateExtra)
	require.GreaterOrEqual(t, alwaysExtra.MicroAlgos.Raw, genesisAlgos+5_000_000) // plus rewards

	cpRound := basics.Round(2 * catchpointInterval)
	require.Contains(t, labels["always"], cpRound)
	require.Contains(t, labels["late"], cpRound)
	require.Equal(t, labels["always"][cpRound], labels["late"][cpRound],
		"two ledgers with the same genesis and the same blocks disagree on the label of catchpoint round %d", cpRound)
	require.Equal(t, always.GetLastCatchpointLabel(), late.GetLastCatchpointLabel())
}
