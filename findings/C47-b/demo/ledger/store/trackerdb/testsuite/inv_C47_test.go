// Copyright (C) 2019-2026 Algorand Foundation Ltd.
// This file is part of go-algorand
//
// go-algorand is free software: you can redistribute it and/or modify
// it under the terms of the GNU Affero General Public License as
// published by the Free Software Foundation, either version 3 of the
// License, or (at your option) any later version.
//
// go-algorand is distributed in the hope that it will be useful,
// but WITHOUT ANY WARRANTY; without even the implied warranty of
// MERCHANTABILITY or FITNESS FOR A PARTICULAR PURPOSE.  See the
// GNU Affero General Public License for more details.
//
// You should have received a copy of the GNU Affero General Public License
// along with go-algorand.  If not, see <https://www.gnu.org/licenses/>.

package testsuite

// Property C47: for any sequence of tracker-store writes and reads, the SQLite
// and the key-value (generickv over Pebble) backends return identical results,
// including rounds, ordering and pagination.
//
// Every test below runs the SAME operation sequence against a fresh SQLite
// store and a fresh Pebble store and compares the answers of the two.

import (
	"fmt"
	"sort"
	"testing"

	"github.com/stretchr/testify/require"

	"github.com/algorand/go-algorand/config"
	"github.com/algorand/go-algorand/crypto"
	"github.com/algorand/go-algorand/data/basics"
	"github.com/algorand/go-algorand/ledger/store/trackerdb"
	"github.com/algorand/go-algorand/ledger/store/trackerdb/pebbledbdriver"
	"github.com/algorand/go-algorand/ledger/store/trackerdb/sqlitedriver"
	"github.com/algorand/go-algorand/logging"
	"github.com/algorand/go-algorand/protocol"
	"github.com/algorand/go-algorand/test/partitiontest"
)

type invC47Backend struct {
	name string
	db   dbForTests
}

// invC47OpenBoth opens one seeded store per backend.
func invC47OpenBoth(t *testing.T) (proto config.ConsensusParams, backends [2]invC47Backend) {
	proto = config.Consensus[protocol.ConsensusCurrentVersion]

	fn := fmt.Sprintf("%s/tracker-db.sqlite", t.TempDir())
	sdb, err := sqlitedriver.Open(fn, false, logging.TestingLog(t))
	require.NoError(t, err)
	seedDb(t, sdb)
	t.Cleanup(sdb.Close)

	dir := fmt.Sprintf("%s/db", t.TempDir())
	pdb, err := pebbledbdriver.Open(dir, false, proto, logging.TestingLog(t))
	require.NoError(t, err)
	seedDb(t, pdb)
	t.Cleanup(pdb.Close)

	backends[0] = invC47Backend{"sqlite", sdb}
	backends[1] = invC47Backend{"pebble", pdb}
	return
}

// invC47Addr gives deterministic addresses so that both backends see the same input.
func invC47Addr(s string) basics.Address {
	return basics.Address(crypto.Hash([]byte(s)))
}

func invC47Online(algos uint64, lastValid basics.Round) trackerdb.BaseOnlineAccountData {
	return trackerdb.BaseOnlineAccountData{
		BaseVotingData: trackerdb.BaseVotingData{VoteKeyDilution: 1, VoteLastValid: lastValid},
		MicroAlgos:     basics.MicroAlgos{Raw: algos},
	}
}

// what a caller can observe from LookupOnline irrespective of the backend (refs are opaque, so only nil-ness counts)
type invC47OnlineObs string

func invC47ObsOnline(p trackerdb.PersistedOnlineAccountData) invC47OnlineObs {
	return invC47OnlineObs(fmt.Sprintf("{found:%v dbRound:%d updRound:%d microAlgos:%d voteLastValid:%d}",
		p.Ref != nil, p.Round, p.UpdRound, p.AccountData.MicroAlgos.Raw, p.AccountData.VoteLastValid))
}

// invC47Compare reports every query on which the two backends disagree.
func invC47Compare[T any](t *testing.T, what func(j int) string, sqlite, pebble []T) {
	t.Helper()
	require.Equal(t, len(sqlite), len(pebble))
	for j := range sqlite {
		s, p := fmt.Sprintf("%+v", sqlite[j]), fmt.Sprintf("%+v", pebble[j])
		if s != p {
			t.Errorf("%s:\n\tsqlite: %s\n\tpebble: %s", what(j), s, p)
		}
	}
}

// Lead 1: LookupOnline(addr, rnd) when rnd%256 == 255.
func TestInvC47LookupOnlineRoundLowByteFF(t *testing.T) {
	partitiontest.PartitionTest(t)
	proto, backends := invC47OpenBoth(t)

	addr := invC47Addr("lookup-online")
	queries := []basics.Round{99, 100, 254, 255, 256, 299, 300, 511, 512, 0xffff}

	var obs [2][]invC47OnlineObs
	for i, b := range backends {
		aw, err := b.db.MakeAccountsWriter()
		require.NoError(t, err)
		require.NoError(t, aw.UpdateAccountsRound(600))

		oaw, err := b.db.MakeOnlineAccountsOptimizedWriter(true)
		require.NoError(t, err)
		for _, upd := range []uint64{100, 300} {
			d := invC47Online(1_000_000*upd, 5000)
			_, err = oaw.InsertOnlineAccount(addr, d.NormalizedOnlineBalance(proto.RewardUnit), d, upd, 5000)
			require.NoError(t, err)
		}

		oar, err := b.db.MakeOnlineAccountsOptimizedReader()
		require.NoError(t, err)
		for _, q := range queries {
			p, err := oar.LookupOnline(addr, q)
			require.NoError(t, err, "%s LookupOnline(%d)", b.name, q)
			obs[i] = append(obs[i], invC47ObsOnline(p))
		}
	}
	invC47Compare(t, func(j int) string { return fmt.Sprintf("LookupOnline(addr, %d)", queries[j]) }, obs[0], obs[1])
}

// Lead 2: OnlineAccountsDelete(forgetBefore) must only consider rows with updRound < forgetBefore.
func TestInvC47OnlineAccountsDeleteBoundary(t *testing.T) {
	partitiontest.PartitionTest(t)
	proto, backends := invC47OpenBoth(t)

	const forgetBefore = basics.Round(4)
	names := []string{"A", "B"}
	addrs := map[string]basics.Address{
		"A": invC47Addr("delete-A"), // online at 1, updated at 4 (== forgetBefore)
		"B": invC47Addr("delete-B"), // online at 2, goes offline at 4 (== forgetBefore)
	}

	var what []string
	var obs [2][]string
	for i, b := range backends {
		aw, err := b.db.MakeAccountsWriter()
		require.NoError(t, err)
		require.NoError(t, aw.UpdateAccountsRound(5))

		oaw, err := b.db.MakeOnlineAccountsOptimizedWriter(true)
		require.NoError(t, err)
		ins := func(addr basics.Address, d trackerdb.BaseOnlineAccountData, norm uint64, upd uint64) {
			_, err := oaw.InsertOnlineAccount(addr, norm, d, upd, uint64(d.VoteLastValid))
			require.NoError(t, err)
		}
		a1, a4 := invC47Online(10_000_000, 1000), invC47Online(20_000_000, 1000)
		ins(addrs["A"], a1, a1.NormalizedOnlineBalance(proto.RewardUnit), 1)
		ins(addrs["A"], a4, a4.NormalizedOnlineBalance(proto.RewardUnit), 4)
		b2 := invC47Online(30_000_000, 1000)
		ins(addrs["B"], b2, b2.NormalizedOnlineBalance(proto.RewardUnit), 2)
		ins(addrs["B"], trackerdb.BaseOnlineAccountData{}, 0, 4) // the way acctdeltas records "went offline"

		require.NoError(t, aw.OnlineAccountsDelete(forgetBefore))

		oar, err := b.db.MakeOnlineAccountsOptimizedReader()
		require.NoError(t, err)
		what = nil
		for _, name := range names {
			h, rnd, err := oar.LookupOnlineHistory(addrs[name])
			require.NoError(t, err)
			hist := fmt.Sprintf("dbRound:%d updRounds:", rnd)
			for _, e := range h {
				hist += fmt.Sprintf(" %d(microAlgos:%d)", e.UpdRound, e.AccountData.MicroAlgos.Raw)
			}
			what = append(what, fmt.Sprintf("LookupOnlineHistory(%s) after OnlineAccountsDelete(%d)", name, forgetBefore))
			obs[i] = append(obs[i], hist)

			// the state of the account as of the last round before forgetBefore
			p, err := oar.LookupOnline(addrs[name], forgetBefore-1)
			require.NoError(t, err)
			what = append(what, fmt.Sprintf("LookupOnline(%s, %d) after OnlineAccountsDelete(%d)", name, forgetBefore-1, forgetBefore))
			obs[i] = append(obs[i], string(invC47ObsOnline(p)))
		}
	}
	invC47Compare(t, func(j int) string { return what[j] }, obs[0], obs[1])
}

var invC47KVs = [][2]string{{"bx:app1a", "1"}, {"bx:app1b", "2"}, {"bx:app1c", ""}, {"bx:app1d", "4"}, {"bx:app1\xffe", "5"}, {"bx:app2a", "6"}, {"zz", "7"}}

// Lead 3a: LookupKeysByPrefix must see what UpsertKvPair wrote.
func TestInvC47LookupKeysByPrefix(t *testing.T) {
	partitiontest.PartitionTest(t)
	_, backends := invC47OpenBoth(t)

	type query struct {
		prefix string
		max    uint64
		// what the caller (accountUpdates.lookupKeysByPrefix) already learnt from the in-memory deltas:
		// true = key present, false = key deleted in a later round. resultCount is the number of `true`s.
		known map[string]bool
	}
	queries := []query{
		{"bx:app1", 10, nil}, {"bx:app1", 2, nil}, {"bx:", 10, nil}, {"bx:app1\xff", 10, nil}, {"xc-bx:", 10, nil}, {"nothing", 10, nil}, {"", 10, nil},
		{"bx:app1", 10, map[string]bool{"bx:app1b": false, "bx:app1zz": true}},
		{"bx:app1", 3, map[string]bool{"bx:app1a": true, "bx:app1b": false}},
	}

	var got [2][]string
	for i, b := range backends {
		aw, err := b.db.MakeAccountsWriter()
		require.NoError(t, err)
		require.NoError(t, aw.UpdateAccountsRound(7))

		aow, err := b.db.MakeAccountsOptimizedWriter(true, true, true, false)
		require.NoError(t, err)
		for _, kv := range invC47KVs {
			require.NoError(t, aow.UpsertKvPair(kv[0], []byte(kv[1])))
		}

		aor, err := b.db.MakeAccountsOptimizedReader()
		require.NoError(t, err)
		// sanity: both backends agree that the pair was written
		pv, err := aor.LookupKeyValue("bx:app1a")
		require.NoError(t, err)
		require.Equal(t, []byte("1"), pv.Value)

		for _, q := range queries {
			res := make(map[string]bool)
			var known uint64
			for k, v := range q.known {
				res[k] = v
				if v {
					known++
				}
			}
			rnd, err := aor.LookupKeysByPrefix(q.prefix, q.max, res, known)
			var keys []string
			for k, v := range res {
				keys = append(keys, fmt.Sprintf("%q:%v", k, v))
			}
			sort.Strings(keys)
			got[i] = append(got[i], fmt.Sprintf("{round:%d failed:%v results:%v}", rnd, err != nil, keys))
		}
	}
	invC47Compare(t, func(j int) string {
		return fmt.Sprintf("LookupKeysByPrefix(%q, max=%d, known=%v)", queries[j].prefix, queries[j].max, queries[j].known)
	}, got[0], got[1])
}

// Lead 3b: LookupKeysByPrefixCursor must see what UpsertKvPair wrote, with the same pagination.
func TestInvC47LookupKeysByPrefixCursor(t *testing.T) {
	partitiontest.PartitionTest(t)
	_, backends := invC47OpenBoth(t)

	type query struct {
		prefix, cursor string
		limit, bytes   uint64
		values         bool
		exclude        map[string][]byte
	}
	queries := []query{
		{"bx:app1", "", 0, 0, true, nil},
		{"bx:app1", "", 2, 0, true, nil},
		{"bx:app1", "bx:app1b", 2, 0, false, nil},
		{"bx:app1", "bx:app1b", 1, 0, true, nil},
		{"bx:app1", "bx:app1d", 1, 0, true, nil},
		{"bx:app1", "", 3, 0, true, map[string][]byte{"bx:app1b": nil}},
		{"bx:app1", "", 0, 20, true, nil},
		{"bx:", "", 100, 0, true, nil},
		{"", "", 100, 0, true, nil},
	}

	var got [2][]string
	for i, b := range backends {
		aw, err := b.db.MakeAccountsWriter()
		require.NoError(t, err)
		require.NoError(t, aw.UpdateAccountsRound(7))

		aow, err := b.db.MakeAccountsOptimizedWriter(true, true, true, false)
		require.NoError(t, err)
		for _, kv := range invC47KVs {
			require.NoError(t, aow.UpsertKvPair(kv[0], []byte(kv[1])))
		}

		aor, err := b.db.MakeAccountsOptimizedReader()
		require.NoError(t, err)
		for _, q := range queries {
			rnd, res, more, err := aor.LookupKeysByPrefixCursor(q.prefix, q.cursor, q.limit, q.bytes, q.values, q.exclude)
			var page []string
			for _, kv := range res {
				page = append(page, fmt.Sprintf("%q=%q", kv.Key, kv.Value))
			}
			got[i] = append(got[i], fmt.Sprintf("{round:%d failed:%v page:%v more:%v}", rnd, err != nil, page, more))
		}
	}
	invC47Compare(t, func(j int) string {
		q := queries[j]
		return fmt.Sprintf("LookupKeysByPrefixCursor(%q, cursor=%q, limit=%d, maxBytes=%d, values=%v, exclude=%d)", q.prefix, q.cursor, q.limit, q.bytes, q.values, len(q.exclude))
	}, got[0], got[1])
}

// Lead 4: AccountsOnlineTop(rnd, offset, n) = latest row per address with updround <= rnd, non-zero
// normalized balance, ordered by balance desc, paginated.
func TestInvC47AccountsOnlineTop(t *testing.T) {
	partitiontest.PartitionTest(t)
	proto, backends := invC47OpenBoth(t)

	addrs := map[basics.Address]string{
		invC47Addr("top-A"): "A", // 1000 algos since round 1
		invC47Addr("top-B"): "B", // 10 algos since round 2
		invC47Addr("top-C"): "C", // 500 algos at round 1, offline at round 2
		invC47Addr("top-D"): "D", // 700 algos at round 1, 5 algos at round 3
	}
	byName := make(map[string]basics.Address)
	for a, n := range addrs {
		byName[n] = a
	}

	type query struct {
		rnd       basics.Round
		offset, n uint64
	}
	queries := []query{{1, 0, 10}, {2, 0, 10}, {3, 0, 10}, {2, 0, 1}, {2, 0, 2}, {2, 1, 1}, {3, 0, 2}, {3, 1, 2}, {3, 3, 5}, {3, 0, 0}}

	var got [2][]string
	for i, b := range backends {
		oaw, err := b.db.MakeOnlineAccountsOptimizedWriter(true)
		require.NoError(t, err)
		ins := func(name string, algos uint64, upd uint64) {
			d := invC47Online(algos*1_000_000, 1000)
			_, err := oaw.InsertOnlineAccount(byName[name], d.NormalizedOnlineBalance(proto.RewardUnit), d, upd, 1000)
			require.NoError(t, err)
		}
		ins("A", 1000, 1)
		ins("C", 500, 1)
		ins("D", 700, 1)
		ins("B", 10, 2)
		_, err = oaw.InsertOnlineAccount(byName["C"], 0, trackerdb.BaseOnlineAccountData{}, 2, 0) // C goes offline
		require.NoError(t, err)
		ins("D", 5, 3)

		ar, err := b.db.MakeAccountsReader()
		require.NoError(t, err)
		for _, q := range queries {
			m, err := ar.AccountsOnlineTop(q.rnd, q.offset, q.n, proto.RewardUnit)
			require.NoError(t, err)
			var l []string
			for a, oa := range m {
				require.Equal(t, a, oa.Address)
				l = append(l, fmt.Sprintf("%s(microAlgos:%d norm:%d lastValid:%d)", addrs[a], oa.MicroAlgos.Raw, oa.NormalizedOnlineBalance, oa.VoteLastValid))
			}
			sort.Strings(l)
			got[i] = append(got[i], fmt.Sprintf("%v", l))
		}
	}
	invC47Compare(t, func(j int) string {
		return fmt.Sprintf("AccountsOnlineTop(rnd=%d, offset=%d, n=%d)", queries[j].rnd, queries[j].offset, queries[j].n)
	}, got[0], got[1])
}

// Lead 5: UpdateAccountsRound never moves the db round backwards.
func TestInvC47UpdateAccountsRoundBackwards(t *testing.T) {
	partitiontest.PartitionTest(t)
	_, backends := invC47OpenBoth(t)

	seq := []basics.Round{5, 5, 3, 6, 0}
	var got [2][]string
	for i, b := range backends {
		aw, err := b.db.MakeAccountsWriter()
		require.NoError(t, err)
		ar, err := b.db.MakeAccountsReader()
		require.NoError(t, err)
		for _, r := range seq {
			uerr := aw.UpdateAccountsRound(r)
			rnd, err := ar.AccountsRound()
			require.NoError(t, err)
			got[i] = append(got[i], fmt.Sprintf("{failed:%v AccountsRound after:%d}", uerr != nil, rnd))
		}
	}
	invC47Compare(t, func(j int) string { return fmt.Sprintf("UpdateAccountsRound(%d) (step %d of %v)", seq[j], j, seq) }, got[0], got[1])
}

// Lead 6: DeleteCreatable(cidx, ctype) only deletes a creatable of that type.
func TestInvC47DeleteCreatableCtype(t *testing.T) {
	partitiontest.PartitionTest(t)
	_, backends := invC47OpenBoth(t)

	creator := invC47Addr("creator")
	const cidx = basics.CreatableIndex(77)
	var what []string
	var got [2][]string
	for i, b := range backends {
		aw, err := b.db.MakeAccountsWriter()
		require.NoError(t, err)
		require.NoError(t, aw.UpdateAccountsRound(9))
		aow, err := b.db.MakeAccountsOptimizedWriter(true, true, false, true)
		require.NoError(t, err)
		aor, err := b.db.MakeAccountsOptimizedReader()
		require.NoError(t, err)

		_, err = aow.InsertCreatable(cidx, basics.AssetCreatable, creator[:])
		require.NoError(t, err)

		what = nil
		del := func(ctype basics.CreatableType, note string) {
			rows, err := aow.DeleteCreatable(cidx, ctype)
			require.NoError(t, err)
			what = append(what, fmt.Sprintf("DeleteCreatable(%d, ctype=%d) %s", cidx, ctype, note))
			got[i] = append(got[i], fmt.Sprintf("{rowsAffected:%d}", rows))
		}
		look := func(note string) {
			addr, ok, rnd, err := aor.LookupCreator(cidx, basics.AssetCreatable)
			require.NoError(t, err)
			what = append(what, fmt.Sprintf("LookupCreator(%d, asset) %s", cidx, note))
			got[i] = append(got[i], fmt.Sprintf("{ok:%v isCreator:%v round:%d}", ok, addr == creator, rnd))
		}
		// delete "app 77": there is no such app, asset 77 must survive
		del(basics.AppCreatable, "while 77 is an asset")
		look("after deleting app 77")
		del(basics.AssetCreatable, "while 77 is an asset")
		look("after deleting asset 77")
		del(basics.AssetCreatable, "when 77 no longer exists")
	}
	invC47Compare(t, func(j int) string { return what[j] }, got[0], got[1])
}

// Extra (not in the leads): OnlineAccountsAll reports the same per-entry rounds on both backends.
func TestInvC47OnlineAccountsAllRound(t *testing.T) {
	partitiontest.PartitionTest(t)
	proto, backends := invC47OpenBoth(t)

	limits := []uint64{0, 1, 2, 3}
	var got [2][]string
	for i, b := range backends {
		aw, err := b.db.MakeAccountsWriter()
		require.NoError(t, err)
		require.NoError(t, aw.UpdateAccountsRound(3))

		oaw, err := b.db.MakeOnlineAccountsOptimizedWriter(true)
		require.NoError(t, err)
		for _, e := range []struct {
			name string
			upd  uint64
		}{{"all-A", 1}, {"all-A", 2}, {"all-B", 1}, {"all-C", 3}} {
			d := invC47Online(1_000_000*e.upd, 1000)
			_, err = oaw.InsertOnlineAccount(invC47Addr(e.name), d.NormalizedOnlineBalance(proto.RewardUnit), d, e.upd, 1000)
			require.NoError(t, err)
		}

		ar, err := b.db.MakeAccountsReader()
		require.NoError(t, err)
		for _, l := range limits {
			all, err := ar.OnlineAccountsAll(l)
			require.NoError(t, err)
			var s []string
			for _, e := range all {
				s = append(s, fmt.Sprintf("{addr:%x.. updRound:%d round:%d microAlgos:%d}", e.Addr[:2], e.UpdRound, e.Round, e.AccountData.MicroAlgos.Raw))
			}
			got[i] = append(got[i], fmt.Sprintf("%v", s))
		}
	}
	invC47Compare(t, func(j int) string { return fmt.Sprintf("OnlineAccountsAll(%d)", limits[j]) }, got[0], got[1])
}
