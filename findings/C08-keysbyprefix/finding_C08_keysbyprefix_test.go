package ledger

import (
	"sync"
	"testing"
	"time"

	"github.com/stretchr/testify/require"

	"github.com/algorand/go-algorand/config"
	"github.com/algorand/go-algorand/data/basics"
	"github.com/algorand/go-algorand/ledger/ledgercore"
	"github.com/algorand/go-algorand/ledger/store/trackerdb"
	"github.com/algorand/go-algorand/protocol"
)

type scratchStallPrefixReader struct {
	trackerdb.AccountsReader
	once    sync.Once
	entered chan struct{}
	release chan struct{}
}

func (r *scratchStallPrefixReader) LookupKeysByPrefix(prefix string, maxKeyNum uint64, results map[string]bool, resultCount uint64) (basics.Round, error) {
	r.once.Do(func() {
		close(r.entered)
		<-r.release
	})
	return r.AccountsReader.LookupKeysByPrefix(prefix, maxKeyNum, results, resultCount)
}

// side observation, unchanged upstream code: lookupKeysByPrefix overwrites `round` with the latest round
// before going to the DB, so a retry (DB round moved during the DB query) walks ALL deltas.
func TestFindingC08KeysByPrefixRetry(t *testing.T) {
	testProtocolVersion := protocol.ConsensusCurrentVersion
	protoParams := config.Consensus[testProtocolVersion]
	accts := setupAccts(1)
	ml := makeMockLedgerForTracker(t, true, 1, testProtocolVersion, accts)
	defer ml.Close()

	conf := config.GetDefaultLocal()
	conf.MaxAcctLookback = 2
	au, _ := newAcctUpdates(t, ml, conf)
	knownCreatables := make(map[basics.CreatableIndex]bool)
	base := accts[0]
	var emptyUpdates ledgercore.AccountDeltas
	opts := auNewBlockOpts{emptyUpdates, testProtocolVersion, protoParams, knownCreatables}

	for rnd := basics.Round(1); rnd <= 8; rnd++ {
		var kv map[string]ledgercore.KvValueDelta
		switch rnd {
		case 1:
			kv = map[string]ledgercore.KvValueDelta{"pfx-old": {Data: []byte("v")}}
		case 7:
			kv = map[string]ledgercore.KvValueDelta{"pfx-new": {Data: []byte("v")}}
		}
		auNewBlock(t, rnd, au, base, opts, kv)
	}
	require.Equal(t, basics.Round(0), au.cachedDBRound)

	keys, err := au.LookupKeysByPrefix(6, "pfx-", 10)
	require.NoError(t, err)
	require.ElementsMatch(t, []string{"pfx-old"}, keys)

	stall := &scratchStallPrefixReader{entered: make(chan struct{}), release: make(chan struct{})}
	au.accountsMu.Lock()
	stall.AccountsReader = au.accountsq
	au.accountsq = stall
	au.accountsMu.Unlock()

	type res struct {
		keys []string
		err  error
	}
	ch := make(chan res, 1)
	go func() {
		k, e := au.LookupKeysByPrefix(6, "pfx-", 10)
		ch <- res{k, e}
	}()
	<-stall.entered
	auCommitSync(t, 7, au, ml) // base 0 -> 5, round 6 is still served
	au.accountsMu.RLock()
	require.Equal(t, basics.Round(5), au.cachedDBRound)
	au.accountsMu.RUnlock()
	close(stall.release)
	select {
	case r := <-ch:
		require.NoError(t, r.err)
		require.ElementsMatch(t, []string{"pfx-old"}, r.keys, "round 6 must not see a box created in round 7")
	case <-time.After(30 * time.Second):
		t.Fatal("lookup hung")
	}
}
