// Copyright (C) 2019-2026 Algorand Foundation Ltd.
// This file is part of go-algorand
//
// go-algorand is free software: you can redistribute it and/or modify
// it under the terms of the GNU Affero General Public License as
// published by the Free Software Foundation, either version 3 of the
// License, or (at your option) any later version.
//
// go-algorand is distributed in the hope that it will be useful,
// but WITHOUT ANY WARRANTY; without even the implied warranty of
// MERCHANTABILITY or FITNESS FOR A PARTICULAR PURPOSE.  See the
// GNU Affero General Public License for more details.
//
// You should have received a copy of the GNU Affero General Public License
// along with go-algorand.  If not, see <https://www.gnu.org/licenses/>.

package simulation_test

import (
	"testing"

	"github.com/stretchr/testify/require"

	"github.com/algorand/go-algorand/data/transactions"
	"github.com/algorand/go-algorand/data/txntest"
	"github.com/algorand/go-algorand/ledger/simulation"
	simulationtesting "github.com/algorand/go-algorand/ledger/simulation/testing"
	"github.com/algorand/go-algorand/protocol"
	"github.com/algorand/go-algorand/test/partitiontest"
)

// Property C31: AVM evaluation of any program ends in accept, reject or an
// ordinary error -- the panic recovery in logic.eval must never trigger.
func TestInvC31SimulateNoInternalCrash(t *testing.T) {
	partitiontest.PartitionTest(t)

	cases := []struct {
		name    string
		program string
		config  simulation.ExecTraceConfig
	}{
		{"retsub", "#pragma version 8\nretsub", simulation.ExecTraceConfig{Enable: true, Stack: true}},
		{"frame_bury", "#pragma version 8\nint 1\nframe_bury 0", simulation.ExecTraceConfig{Enable: true, Stack: true}},
		{"box_del", "#pragma version 8\n#pragma typetrack false\nbox_del", simulation.ExecTraceConfig{Enable: true, State: true}},
		{"app_global_put", "#pragma version 8\n#pragma typetrack false\napp_global_put", simulation.ExecTraceConfig{Enable: true, State: true}},
	}
	for _, tc := range cases {
		t.Run(tc.name, func(t *testing.T) {
			env := simulationtesting.PrepareSimulatorTest(t)
			defer env.Close()
			sender := env.Accounts[0]
			createTxn := env.TxnInfo.NewTxn(txntest.Txn{
				Type:              protocol.ApplicationCallTx,
				Sender:            sender.Addr,
				ApplicationID:     0,
				ApprovalProgram:   tc.program,
				ClearStateProgram: "#pragma version 8\nint 1",
			})
			signed := createTxn.Txn().Sign(sender.Sk)
			result, err := simulation.MakeSimulator(env.Ledger, true).Simulate(simulation.Request{
				TxnGroups:   [][]transactions.SignedTxn{{signed}},
				TraceConfig: tc.config,
			})
			require.NoError(t, err)
			require.Len(t, result.TxnGroups, 1)
			msg := result.TxnGroups[0].FailureMessage
			t.Log(msg)
			require.NotEmpty(t, msg, "these programs must fail")
			require.NotContains(t, msg, "panic", "evaluation crashed internally instead of returning an error")
		})
	}
}
