// Copyright (C) 2019-2026 Algorand Foundation Ltd.
// This file is part of go-algorand
//
// go-algorand is free software: you can redistribute it and/or modify
// it under the terms of the GNU Affero General Public License as
// published by the Free Software Foundation, either version 3 of the
// License, or (at your option) any later version.
//
// go-algorand is distributed in the hope that it will be useful,
// but WITHOUT ANY WARRANTY; without even the implied warranty of
// MERCHANTABILITY or FITNESS FOR A PARTICULAR PURPOSE.  See the
// GNU Affero General Public License for more details.
//
// You should have received a copy of the GNU Affero General Public License
// along with go-algorand.  If not, see <https://www.gnu.org/licenses/>.

package ledger

import (
	"context"
	"strings"
	"testing"

	"github.com/stretchr/testify/require"

	"github.com/algorand/go-algorand/config"
	"github.com/algorand/go-algorand/data/basics"
	"github.com/algorand/go-algorand/data/bookkeeping"
	"github.com/algorand/go-algorand/data/transactions"
	"github.com/algorand/go-algorand/data/transactions/verify"
	ledgertesting "github.com/algorand/go-algorand/ledger/testing"
	"github.com/algorand/go-algorand/logging"
	"github.com/algorand/go-algorand/protocol"
	"github.com/algorand/go-algorand/test/partitiontest"
	"github.com/algorand/go-algorand/util/execpool"
)

// TestInvC29ValidatedBlockPaysetMatchesHeader asserts the block half of the
// property "group and block commitments bind their contents": whenever
// Ledger.Validate accepts a block, the transactions carried by that very block
// (the ones that get written to the block database and served to peers) are the
// ones the header's TxnCommitments commits to.
//
// For every supported consensus version that can commit to a payset, build one
// valid block holding a single payment, then flip each of the per-transaction
// in-block flags in turn and require that the mutated block is either rejected
// by Validate or still matches its header.
func TestInvC29ValidatedBlockPaysetMatchesHeader(t *testing.T) {
	partitiontest.PartitionTest(t)

	versions := []protocol.ConsensusVersion{
		protocol.ConsensusV11, protocol.ConsensusV12, protocol.ConsensusV13,
		protocol.ConsensusV14, protocol.ConsensusV15, protocol.ConsensusV16,
		protocol.ConsensusV17, protocol.ConsensusV24, protocol.ConsensusV26,
		protocol.ConsensusV33, protocol.ConsensusCurrentVersion, protocol.ConsensusFuture,
	}

	mutations := []struct {
		name string
		f    func(stib *transactions.SignedTxnInBlock)
	}{
		{"flip HasGenesisID", func(stib *transactions.SignedTxnInBlock) { stib.HasGenesisID = !stib.HasGenesisID }},
		{"flip HasGenesisHash", func(stib *transactions.SignedTxnInBlock) { stib.HasGenesisHash = !stib.HasGenesisHash }},
	}

	backlogPool := execpool.MakeBacklog(nil, 0, execpool.LowPriority, nil)
	defer backlogPool.Shutdown()

	for _, version := range versions {
		proto := config.Consensus[version]

		genesisInitState, initSecrets := ledgertesting.GenerateInitState(t, version, 100)
		cfg := config.GetDefaultLocal()
		cfg.Archival = true
		dbName := strings.ReplaceAll(t.Name()+"-"+string(version), "/", "_")
		l, err := OpenLedger(logging.TestingLog(t), dbName, true, genesisInitState, cfg)
		require.NoError(t, err, "version %s: could not open ledger", version)
		l.verifiedTxnCache = verify.GetMockedCache(false)

		var addrList []basics.Address
		for addr := range genesisInitState.Accounts {
			if addr != testPoolAddr && addr != testSinkAddr {
				addrList = append(addrList, addr)
			}
		}

		tx := transactions.Transaction{
			Type: protocol.PaymentTx,
			Header: transactions.Header{
				Sender:     addrList[0],
				Fee:        basics.MicroAlgos{Raw: proto.MinTxnFee * 2},
				FirstValid: l.Latest() + 1,
				LastValid:  l.Latest() + 10,
				GenesisID:  t.Name(),
			},
			PaymentTxnFields: transactions.PaymentTxnFields{
				Receiver: addrList[1],
				Amount:   basics.MicroAlgos{Raw: 1000},
			},
		}
		if proto.SupportGenesisHash {
			tx.GenesisHash = genesisInitState.GenesisHash
		}
		stx := sign(initSecrets, tx)

		blk := makeNewEmptyBlock(t, l, t.Name(), genesisInitState.Accounts)
		txib, err := blk.EncodeSignedTxn(stx, transactions.ApplyData{})
		require.NoError(t, err, "version %s", version)
		blk.Payset = append(blk.Payset, txib)
		if proto.TxnCounter {
			blk.TxnCounter++
		}
		require.NoError(t, endOfBlock(&blk), "version %s", version)

		// sanity: the honest block is valid and matches its header.
		require.True(t, blk.ContentsMatchHeader(), "version %s: honest block does not match its header", version)
		_, err = l.Validate(context.Background(), blk, backlogPool)
		require.NoError(t, err, "version %s: honest block rejected", version)

		for _, m := range mutations {
			mutated := bookkeeping.Block{BlockHeader: blk.BlockHeader}
			mutated.Payset = append(transactions.Payset(nil), blk.Payset...)
			m.f(&mutated.Payset[0])

			// the header is untouched, so it still commits to the honest payset.
			require.False(t, mutated.ContentsMatchHeader(), "version %s, %s: mutation did not change the commitment", version, m.name)

			vb, err := l.Validate(context.Background(), mutated, backlogPool)
			if err != nil {
				continue // rejected, as it must be
			}
			accepted := vb.Block()
			if !accepted.ContentsMatchHeader() {
				t.Errorf("version %s, %s: Ledger.Validate accepted a block whose transactions do not match the header's commitment",
					version, m.name)
			}
		}
		l.Close()
	}
}
