// Copyright (C) 2019-2025 Algorand, Inc.
// This file is part of go-algorand
//
// go-algorand is free software: you can redistribute it and/or modify
// it under the terms of the GNU Affero General Public License as
// published by the Free Software Foundation, either version 3 of the
// License, or (at your option) any later version.
//
// go-algorand is distributed in the hope that it will be useful,
// but WITHOUT ANY WARRANTY; without even the implied warranty of
// MERCHANTABILITY or FITNESS FOR A PARTICULAR PURPOSE.  See the
// GNU Affero General Public License for more details.
//
// You should have received a copy of the GNU Affero General Public License
// along with go-algorand.  If not, see <https://www.gnu.org/licenses/>.

package ledger

// Finding C41: "decoding untrusted bytes is safe and bounded".
//
// msgp.Raw fields are decoded by (*msgp.Raw).UnmarshalMsgWithState, which checks
// st.AllowableDepth only once on entry and then calls msgp.Skip. msgp.Skip recurses
// once per nested array/map level with no depth accounting at all. The catchpoint
// chunk types (CatchpointSnapshotChunkV5/V6 -> encoded.BalanceRecordV5/V6,
// encoded.OnlineAccountRecordV6, encoded.OnlineRoundParamsRecordV6) carry msgp.Raw
// fields and are decoded, before any hash verification, from bytes served by an
// arbitrary catchup peer (catchup/ledgerFetcher.go getPeerLedger ->
// ProcessStagingBalances -> protocol.Decode). A chunk made of a few million 0x91
// bytes (nested one-element arrays) placed in such a field makes Skip recurse a few
// million frames deep; the goroutine stack exceeds the 1 GB limit, which is a fatal
// runtime error ("fatal error: stack overflow") that recover() in
// protocol.DecodeMsgp cannot intercept: the whole process dies.
//
// Because the crash kills the test binary, the dangerous call runs in a child
// process (this same test binary re-executed with C41_CHILD=1).
//
//	go test ./ledger -run 'TestFindingC41$' -v            # property test: FAILS while the defect is present
//	C41_EXPECT_DEFECT=1 go test ./ledger -run 'TestFindingC41$' -v   # demo: PASSES iff the crash reproduces
//	C41_MEASURE=1 go test ./ledger -run 'TestFindingC41Measure$' -v  # bisect the overflow depth / bytes of stack per level

import (
	"bytes"
	"context"
	"fmt"
	"os"
	"os/exec"
	"runtime/debug"
	"strconv"
	"strings"
	"testing"
	"time"

	"github.com/stretchr/testify/require"

	"github.com/algorand/msgp/msgp"

	"github.com/algorand/go-algorand/config"
	"github.com/algorand/go-algorand/crypto"
	"github.com/algorand/go-algorand/data/basics"
	"github.com/algorand/go-algorand/ledger/encoded"
	"github.com/algorand/go-algorand/ledger/ledgercore"
	ledgertesting "github.com/algorand/go-algorand/ledger/testing"
	"github.com/algorand/go-algorand/logging"
	"github.com/algorand/go-algorand/protocol"
	"github.com/algorand/go-algorand/test/partitiontest"
)

// c41MaxCatchpointFileChunkSize replicates catchup.maxCatchpointFileChunkSize
// (catchup/ledgerFetcher.go:43; package catchup cannot be imported from here because
// it imports ledger). It is the largest tar entry the ledger fetcher will read into
// memory and hand to ProcessStagingBalances.
const c41MaxCatchpointFileChunkSize = BalancesPerCatchpointFileChunk*(MaxEncodedBaseAccountDataSize+encoded.MaxEncodedKVDataSize) + ResourcesPerCatchpointFileChunk*MaxEncodedBaseResourceDataSize

// c41DemoDepth is the nesting depth used by the headline demo: a 16 MiB payload,
// about 0.5% of what the entry point accepts.
const c41DemoDepth = 16 << 20

const c41ReturnedMarker = "C41-CHILD-RETURNED"

// c41Nested returns the msgpack encoding of depth nested one-element arrays around the integer 1:
// depth bytes of 0x91 followed by 0x01. It is a perfectly well-formed msgpack object.
func c41Nested(depth int) msgp.Raw {
	b := bytes.Repeat([]byte{0x91}, depth+1)
	b[depth] = 0x01
	return msgp.Raw(b)
}

// c41Payload builds a catchpoint chunk (as a malicious peer would serve it) holding the nested
// object in the named msgp.Raw field. The chunk is produced with the regular encoder:
// msgp.Raw.MarshalMsg copies its bytes verbatim.
func c41Payload(field string, depth int) (payload []byte, version uint64) {
	nested := c41Nested(depth)
	var addr basics.Address
	addr[0] = 1
	switch field {
	case "v5.ad": // CatchpointSnapshotChunkV5.Balances[0].AccountData
		var chunk CatchpointSnapshotChunkV5
		chunk.Balances = []encoded.BalanceRecordV5{{Address: addr, AccountData: nested}}
		return protocol.Encode(&chunk), CatchpointFileVersionV5
	case "v6.b": // CatchpointSnapshotChunkV6.Balances[0].AccountData
		var chunk CatchpointSnapshotChunkV6
		chunk.Balances = []encoded.BalanceRecordV6{{Address: addr, AccountData: nested}}
		return protocol.Encode(&chunk), CatchpointFileVersionV8
	case "v6.c": // CatchpointSnapshotChunkV6.Balances[0].Resources[7]
		var chunk CatchpointSnapshotChunkV6
		chunk.Balances = []encoded.BalanceRecordV6{{Address: addr, Resources: map[uint64]msgp.Raw{7: nested}}}
		return protocol.Encode(&chunk), CatchpointFileVersionV8
	case "v6.oa": // CatchpointSnapshotChunkV6.OnlineAccounts[0].Data
		var chunk CatchpointSnapshotChunkV6
		chunk.OnlineAccounts = []encoded.OnlineAccountRecordV6{{Address: addr, Data: nested}}
		return protocol.Encode(&chunk), CatchpointFileVersionV8
	case "v6.orp": // CatchpointSnapshotChunkV6.OnlineRoundParams[0].Data
		var chunk CatchpointSnapshotChunkV6
		chunk.OnlineRoundParams = []encoded.OnlineRoundParamsRecordV6{{Round: 1, Data: nested}}
		return protocol.Encode(&chunk), CatchpointFileVersionV8
	}
	panic("unknown field " + field)
}

// TestFindingC41Child is the child half: it only runs when re-executed by the tests below.
//
//	C41_MODE=decode    protocol.Decode(bytes, &chunk): the exact call made by processStagingBalances
//	C41_MODE=accessor  the real CatchpointCatchupAccessor.ProcessStagingBalances on a real (in-memory) ledger,
//	                   i.e. exactly what ledgerFetcher.processBalancesBlock calls for every tar entry.
func TestFindingC41Child(t *testing.T) {
	if os.Getenv("C41_CHILD") != "1" {
		t.Skip("child half of TestFindingC41; only runs when re-executed by the parent")
	}
	depth, err := strconv.Atoi(os.Getenv("C41_DEPTH"))
	require.NoError(t, err)
	field := os.Getenv("C41_FIELD")
	if ms := os.Getenv("C41_MAXSTACK"); ms != "" {
		n, err1 := strconv.Atoi(ms)
		require.NoError(t, err1)
		debug.SetMaxStack(n)
	}
	payload, version := c41Payload(field, depth)
	require.Less(t, len(payload), c41MaxCatchpointFileChunkSize)

	switch os.Getenv("C41_MODE") {
	case "decode":
		if version == CatchpointFileVersionV5 {
			var chunk CatchpointSnapshotChunkV5
			err = protocol.Decode(payload, &chunk)
		} else {
			var chunk CatchpointSnapshotChunkV6
			err = protocol.Decode(payload, &chunk)
		}
	case "accessor":
		log := logging.TestingLog(t)
		genesisInitState, _ := ledgertesting.GenerateInitState(t, protocol.ConsensusCurrentVersion, 100)
		cfg := config.GetDefaultLocal()
		l, err1 := OpenLedger(log, t.Name(), true, genesisInitState, cfg)
		require.NoError(t, err1)
		defer l.Close()
		accessor := MakeCatchpointCatchupAccessor(l, log)
		ctx := context.Background()
		require.NoError(t, accessor.ResetStagingBalances(ctx, true))
		var progress CatchpointCatchupAccessorProgress
		fileHeader := CatchpointFileHeader{
			Version:           version,
			Totals:            ledgercore.AccountTotals{},
			TotalAccounts:     1,
			TotalChunks:       1,
			BlockHeaderDigest: crypto.Digest{},
		}
		require.NoError(t, accessor.ProcessStagingBalances(ctx, CatchpointContentFileName, protocol.Encode(&fileHeader), &progress))
		err = accessor.ProcessStagingBalances(ctx, catchpointBalancesFileNamePrefix+"1"+catchpointBalancesFileNameSuffix, payload, &progress)
	default:
		t.Fatalf("bad C41_MODE")
	}
	// Reaching this line is the safe outcome, whatever err is.
	fmt.Printf("%s payload=%d err=%v\n", c41ReturnedMarker, len(payload), err != nil)
}

type c41Result struct {
	exitCode int
	returned bool // the decode call returned to its caller (with or without error)
	overflow bool // the runtime killed the process with a stack overflow
	inSkip   bool // ... and the overflowing frames are msgp.Skip
	stderr   string
	elapsed  time.Duration
}

func c41RunChild(t *testing.T, mode, field string, depth int, maxStack int) c41Result {
	cmd := exec.Command(os.Args[0], "-test.run=^TestFindingC41Child$", "-test.v", "-test.timeout=10m")
	cmd.Env = append(os.Environ(), "C41_CHILD=1", "C41_MODE="+mode, "C41_FIELD="+field, "C41_DEPTH="+strconv.Itoa(depth))
	if maxStack > 0 {
		cmd.Env = append(cmd.Env, "C41_MAXSTACK="+strconv.Itoa(maxStack))
	}
	var stdout, stderr bytes.Buffer
	cmd.Stdout = &stdout
	cmd.Stderr = &stderr
	start := time.Now()
	err := cmd.Run()
	res := c41Result{elapsed: time.Since(start), stderr: stderr.String()}
	if err != nil {
		ee, ok := err.(*exec.ExitError)
		require.True(t, ok, "cannot run child: %v", err)
		res.exitCode = ee.ExitCode()
	}
	res.returned = strings.Contains(stdout.String(), c41ReturnedMarker)
	res.overflow = strings.Contains(res.stderr, "goroutine stack exceeds") && strings.Contains(res.stderr, "fatal error: stack overflow")
	res.inSkip = strings.Contains(res.stderr, "github.com/algorand/msgp/msgp.Skip(")
	if !res.returned && !res.overflow {
		t.Fatalf("child neither returned nor overflowed (exit %d)\nstdout:\n%s\nstderr:\n%s", res.exitCode, stdout.String(), c41Head(res.stderr, 40))
	}
	return res
}

func c41Head(s string, lines int) string {
	parts := strings.SplitN(s, "\n", lines+1)
	if len(parts) > lines {
		parts = parts[:lines]
	}
	return strings.Join(parts, "\n")
}

// TestFindingC41 checks the property on every msgp.Raw field reachable from a catchpoint chunk.
// It fails while the defect is present. With C41_EXPECT_DEFECT=1 the expectation is inverted, so
// that it passes exactly when the process-killing stack overflow reproduces.
func TestFindingC41(t *testing.T) {
	partitiontest.PartitionTest(t)
	expectDefect := os.Getenv("C41_EXPECT_DEFECT") == "1"

	t.Logf("entry point limit (catchup.maxCatchpointFileChunkSize) = %d bytes; demo payload = %d bytes (%.2f%% of the limit)",
		c41MaxCatchpointFileChunkSize, c41DemoDepth+64, 100*float64(c41DemoDepth)/float64(c41MaxCatchpointFileChunkSize))

	// control: a shallow nesting goes through the same harness and returns normally.
	ctl := c41RunChild(t, "accessor", "v6.b", 1000, 0)
	require.True(t, ctl.returned, "control child must return")
	require.Equal(t, 0, ctl.exitCode)

	cases := []struct{ mode, field string }{
		// full production call: ProcessStagingBalances on a real ledger
		{"accessor", "v6.b"},
		{"accessor", "v5.ad"},
		{"accessor", "v6.c"},
		{"accessor", "v6.oa"},
		{"accessor", "v6.orp"},
	}
	for _, c := range cases {
		t.Run(c.mode+"/"+c.field, func(t *testing.T) {
			res := c41RunChild(t, c.mode, c.field, c41DemoDepth, 0)
			t.Logf("depth=%d exit=%d returned=%v stackOverflow=%v inSkip=%v elapsed=%v", c41DemoDepth, res.exitCode, res.returned, res.overflow, res.inSkip, res.elapsed)
			if res.overflow {
				t.Logf("child stderr (head):\n%s", c41Head(res.stderr, 25))
			}
			if expectDefect {
				require.True(t, res.overflow, "expected the stack overflow to reproduce")
				require.True(t, res.inSkip, "expected msgp.Skip frames in the overflow trace")
				require.False(t, res.returned)
				require.NotEqual(t, 0, res.exitCode)
				return
			}
			if res.overflow {
				t.Errorf("C41 VIOLATED: decoding a %d-byte catchpoint chunk (field %s) killed the process with a goroutine stack overflow in msgp.Skip (exit code %d); an error return was expected",
					c41DemoDepth+64, c.field, res.exitCode)
			}
		})
	}
}

// TestFindingC41Measure bisects the smallest nesting depth that overflows, for the default
// 1 GB max stack and for lowered limits, which yields the stack cost per nesting level.
func TestFindingC41Measure(t *testing.T) {
	partitiontest.PartitionTest(t)
	if os.Getenv("C41_MEASURE") != "1" {
		t.Skip("set C41_MEASURE=1 to run the bisection")
	}
	// The runtime grows stacks by doubling and refuses a new size above the limit, so the usable
	// stack is the largest power of two not above the limit: 512 MiB for the default 1e9 limit.
	for _, lim := range []struct {
		maxStack, usable int
		lo, hi, step     int
	}{
		{32 << 20, 32 << 20, 1 << 10, 1 << 20, 1 << 10},
		{64 << 20, 64 << 20, 1 << 10, 2 << 20, 1 << 10},
		{0 /* default: 1e9 */, 512 << 20, 1 << 20, 16 << 20, 16 << 10},
	} {
		lo, hi := lim.lo, lim.hi // invariant: lo returns, hi overflows
		require.True(t, c41RunChild(t, "decode", "v6.b", lo, lim.maxStack).returned)
		require.True(t, c41RunChild(t, "decode", "v6.b", hi, lim.maxStack).overflow)
		for hi-lo > lim.step {
			mid := (lo + hi) / 2
			if c41RunChild(t, "decode", "v6.b", mid, lim.maxStack).overflow {
				hi = mid
			} else {
				lo = mid
			}
		}
		t.Logf("maxStack=%d (usable %d): deepest safe nesting in [%d,%d) => %.1f bytes of stack per nesting level; smallest crashing payload ~%d bytes",
			lim.maxStack, lim.usable, lo, hi, float64(lim.usable)/float64(hi), hi+64)
	}
}
