package merkletrie

import (
	"errors"
	"fmt"
	"math/rand"
	"os"
	"sort"
	"strconv"
	"testing"

	"github.com/algorand/go-algorand/crypto"
)

// independent canonical hash of a set
func invCanonNode(elems [][]byte, depth int) []byte {
	// elems all share prefix elems[0][:depth], len(elems) >= 2, sorted
	path := elems[0][:depth]
	acc := []byte{byte(len(path))}
	acc = append(acc, path...)
	i := 0
	for i < len(elems) {
		b := elems[i][depth]
		j := i
		for j < len(elems) && elems[j][depth] == b {
			j++
		}
		grp := elems[i:j]
		if len(grp) == 1 {
			rest := grp[0][depth+1:]
			acc = append(acc, 0, byte(len(rest)), b)
			acc = append(acc, rest...)
		} else {
			h := invCanonNode(grp, depth+1)
			acc = append(acc, 1, byte(len(h)), b)
			acc = append(acc, h...)
		}
		i = j
	}
	h := crypto.Hash(acc)
	return h[:]
}

func invCanonRoot(set map[string]bool) crypto.Digest {
	if len(set) == 0 {
		return crypto.Digest{}
	}
	elems := make([][]byte, 0, len(set))
	for k := range set {
		elems = append(elems, []byte(k))
	}
	sort.Slice(elems, func(i, j int) bool { return string(elems[i]) < string(elems[j]) })
	if len(elems) == 1 {
		return crypto.Hash(append([]byte{0}, elems[0]...))
	}
	return crypto.Hash(append([]byte{1}, invCanonNode(elems, 0)...))
}

func invCopySet(s map[string]bool) map[string]bool {
	o := make(map[string]bool, len(s))
	for k := range s {
		o[k] = true
	}
	return o
}

type invCfg struct {
	cfg      MemoryConfig
	keyLen   int
	alphabet int // number of distinct byte values per position (small universe) ; 0 => random 256
	universe int // number of distinct keys
	steps    int
}

func invRun(seed int64, c invCfg) (trace []string, err error) {
	rnd := rand.New(rand.NewSource(seed))
	keys := make([][]byte, c.universe)
	for i := range keys {
		k := make([]byte, c.keyLen)
		for j := range k {
			if c.alphabet > 0 {
				k[j] = byte(rnd.Intn(c.alphabet))
			} else {
				k[j] = byte(rnd.Intn(256))
			}
		}
		keys[i] = k
	}
	committer := &invC17NthLoadFailCommitter{}
	inject := os.Getenv("INV_INJECT") != ""
	mt, e := MakeTrie(committer, c.cfg)
	if e != nil {
		return nil, e
	}
	set := map[string]bool{}
	committed := map[string]bool{}
	log := func(f string, a ...interface{}) { trace = append(trace, fmt.Sprintf(f, a...)) }
	defer func() {
		if r := recover(); r != nil {
			err = fmt.Errorf("panic: %v", r)
		}
	}()
	for s := 0; s < c.steps; s++ {
		op := rnd.Intn(100)
		switch {
		case op < 40:
			k := keys[rnd.Intn(len(keys))]
			kc := append([]byte{}, k...)
			log("add %x", k)
			if inject && rnd.Intn(3) == 0 {
				committer.arm(1 + rnd.Intn(5))
			}
			ok, e := mt.Add(kc)
			committer.arm(0)
			if errors.Is(e, errInvC17TransientLoad) {
				log("  -> injected failure")
				continue
			}
			if e != nil {
				return trace, fmt.Errorf("add err %v", e)
			}
			if ok == set[string(k)] {
				return trace, fmt.Errorf("add %x returned %v but membership %v", k, ok, set[string(k)])
			}
			set[string(k)] = true
		case op < 70:
			k := keys[rnd.Intn(len(keys))]
			kc := append([]byte{}, k...)
			log("del %x", k)
			if inject && rnd.Intn(3) == 0 {
				committer.arm(1 + rnd.Intn(5))
			}
			ok, e := mt.Delete(kc)
			committer.arm(0)
			if errors.Is(e, errInvC17TransientLoad) {
				log("  -> injected failure")
				continue
			}
			if e != nil {
				return trace, fmt.Errorf("del err %v", e)
			}
			if ok != set[string(k)] {
				return trace, fmt.Errorf("del %x returned %v but membership %v", k, ok, set[string(k)])
			}
			delete(set, string(k))
		case op < 78:
			log("commit")
			if _, e := mt.Commit(); e != nil {
				return trace, fmt.Errorf("commit err %v", e)
			}
			committed = invCopySet(set)
		case op < 86:
			log("evict(true)")
			if _, e := mt.Evict(true); e != nil {
				return trace, fmt.Errorf("evict err %v", e)
			}
			// Evict(true) commits only if modified; if not modified, storage has last commit (or never committed)
			if !mt.cache.modified {
				// if it was modified, it's committed now. if it wasn't modified, set == committed unless nothing ever happened
			}
			committed = invCopySet(set)
		case op < 90:
			log("evict(false)")
			_, e := mt.Evict(false)
			if e != nil && e != ErrUnableToEvictPendingCommits {
				return trace, fmt.Errorf("evict err %v", e)
			}
		case op < 95:
			log("roothash")
			h, e := mt.RootHash()
			if e != nil {
				return trace, fmt.Errorf("roothash err %v", e)
			}
			if h != invCanonRoot(set) {
				return trace, fmt.Errorf("root mismatch (mid)")
			}
			if len(set) > 0 {
				committed = invCopySet(set) // RootHash commits when modified
			} else if !mt.cache.modified {
				// nothing
			}
		case op < 98:
			// clean reload: commit then reopen
			log("commit+reload")
			if _, e := mt.Commit(); e != nil {
				return trace, fmt.Errorf("commit err %v", e)
			}
			committed = invCopySet(set)
			mt, e = MakeTrie(committer, c.cfg)
			if e != nil {
				return trace, fmt.Errorf("reload err %v", e)
			}
		default:
			// crash reload: reopen without commit; state reverts to last stored
			log("crash-reload")
			// figure what is stored: if the trie is modified, storage has `committed`; else storage == set
			if !mt.cache.modified {
				committed = invCopySet(set)
			}
			// special case: never stored root page and empty
			mt, e = MakeTrie(committer, c.cfg)
			if e != nil {
				return trace, fmt.Errorf("reload err %v", e)
			}
			set = invCopySet(committed)
		}
		// check invariants cheaply every step on a shadow? RootHash commits, which changes the history; do it on some steps only (op roothash)
	}
	// final check
	h, e := mt.RootHash()
	if e != nil {
		return trace, fmt.Errorf("final roothash err %v", e)
	}
	if h != invCanonRoot(set) {
		return trace, fmt.Errorf("final root mismatch")
	}
	// membership
	for _, k := range keys {
		pn := mt.root
		if pn == storedNodeIdentifierNull {
			break
		}
		n, e := mt.cache.getNode(mt.root)
		if e != nil {
			return trace, fmt.Errorf("getroot err %v", e)
		}
		f, e := n.find(&mt.cache, k)
		if e != nil {
			return trace, fmt.Errorf("find err %v", e)
		}
		if f != set[string(k)] {
			return trace, fmt.Errorf("find mismatch")
		}
	}
	// reload and compare
	if _, e := mt.Commit(); e != nil {
		return trace, fmt.Errorf("final commit err %v", e)
	}
	mt2, e := MakeTrie(committer, c.cfg)
	if e != nil {
		return trace, fmt.Errorf("final reload err %v", e)
	}
	h2, e := mt2.RootHash()
	if e != nil {
		return trace, fmt.Errorf("final reload roothash err %v", e)
	}
	if h2 != h {
		return trace, fmt.Errorf("final reload root mismatch")
	}
	if _, e := mt2.GetStats(); e != nil {
		return trace, fmt.Errorf("final reload stats err %v", e)
	}
	return trace, nil
}

func TestInvC17Fuzz(t *testing.T) {
	iters := 300
	if v := os.Getenv("INV_ITERS"); v != "" {
		iters, _ = strconv.Atoi(v)
	}
	base := int64(1)
	if v := os.Getenv("INV_SEED"); v != "" {
		base, _ = strconv.ParseInt(v, 10, 64)
	}
	fails := 0
	for it := 0; it < iters; it++ {
		seed := base*1000003 + int64(it)
		r := rand.New(rand.NewSource(seed))
		npp := []int64{1, 2, 3, 4, 5, 7, 8, 16, 32, 116}[r.Intn(10)]
		c := invCfg{
			cfg: MemoryConfig{
				NodesCountPerPage:         npp,
				CachedNodesCount:          []int{0, 1, 2, 3, 5, 10, 50, 1000}[r.Intn(8)],
				PageFillFactor:            []float32{0, 0.25, 0.5, 0.75, 0.95, 1.0}[r.Intn(6)],
				MaxChildrenPagesThreshold: []uint64{0, 1, 2, 3, 4, 32, 64}[r.Intn(7)],
			},
			keyLen:   []int{1, 2, 3, 4, 32}[r.Intn(5)],
			alphabet: []int{2, 3, 4, 16, 0}[r.Intn(5)],
			universe: []int{3, 5, 8, 20, 60, 300}[r.Intn(6)],
			steps:    []int{10, 30, 100, 400}[r.Intn(4)],
		}
		trace, err := invRun(seed, c)
		if err != nil {
			fails++
			t.Errorf("seed %d cfg %+v steps=%d: %v", seed, c, len(trace), err)
			if fails <= 3 && len(trace) < 60 {
				for _, l := range trace {
					t.Log(l)
				}
			}
			if fails > 10 {
				return
			}
		}
	}
}

func TestInvC17FuzzBig(t *testing.T) {
	iters := 10
	if v := os.Getenv("INV_ITERS"); v != "" {
		iters, _ = strconv.Atoi(v)
	}
	base := int64(7)
	if v := os.Getenv("INV_SEED"); v != "" {
		base, _ = strconv.ParseInt(v, 10, 64)
	}
	fails := 0
	for it := 0; it < iters; it++ {
		seed := base*1000003 + int64(it)
		r := rand.New(rand.NewSource(seed))
		npp := []int64{3, 8, 16, 32, 116, 512}[r.Intn(6)]
		c := invCfg{
			cfg: MemoryConfig{
				NodesCountPerPage:         npp,
				CachedNodesCount:          []int{0, 10, 100, 1000, 9000}[r.Intn(5)],
				PageFillFactor:            []float32{0, 0.5, 0.9, 0.95, 1.0}[r.Intn(5)],
				MaxChildrenPagesThreshold: []uint64{1, 2, 4, 8, 32, 64}[r.Intn(6)],
			},
			keyLen:   []int{2, 3, 32}[r.Intn(3)],
			alphabet: []int{16, 0}[r.Intn(2)],
			universe: []int{1000, 5000}[r.Intn(2)],
			steps:    []int{2000, 8000}[r.Intn(2)],
		}
		trace, err := invRun(seed, c)
		if err != nil {
			fails++
			t.Errorf("seed %d cfg %+v steps=%d: %v", seed, c, len(trace), err)
			if fails > 10 {
				return
			}
		}
	}
}
