// Copyright (C) 2019-2026 Algorand Foundation Ltd.
// This file is part of go-algorand
//
// go-algorand is free software: you can redistribute it and/or modify
// it under the terms of the GNU Affero General Public License as
// published by the Free Software Foundation, either version 3 of the
// License, or (at your option) any later version.
//
// go-algorand is distributed in the hope that it will be useful,
// but WITHOUT ANY WARRANTY; without even the implied warranty of
// MERCHANTABILITY or FITNESS FOR A PARTICULAR PURPOSE.  See the
// GNU Affero General Public License for more details.
//
// You should have received a copy of the GNU Affero General Public License
// along with go-algorand.  If not, see <https://www.gnu.org/licenses/>.

package merkletrie

import (
	"errors"
	"testing"

	"github.com/stretchr/testify/require"

	"github.com/algorand/go-algorand/crypto"
	"github.com/algorand/go-algorand/test/partitiontest"
)

// invC17NthLoadFailCommitter is an InMemoryCommitter whose n-th LoadPage call ( counted from the moment it is armed )
// fails once with a transient error. All the other calls behave like the plain InMemoryCommitter.
type invC17NthLoadFailCommitter struct {
	InMemoryCommitter
	failAt int // 0 = disarmed
	loads  int
}

var errInvC17TransientLoad = errors.New("transient load failure")

func (c *invC17NthLoadFailCommitter) LoadPage(page uint64) ([]byte, error) {
	if c.failAt > 0 {
		c.loads++
		if c.loads == c.failAt {
			c.failAt = 0
			return nil, errInvC17TransientLoad
		}
	}
	return c.InMemoryCommitter.LoadPage(page)
}

func (c *invC17NthLoadFailCommitter) arm(n int) {
	c.failAt = n
	c.loads = 0
}

// invC17Key creates a 32 bytes key that starts with the given prefix.
func invC17Key(prefix ...byte) []byte {
	h := crypto.Hash(prefix)
	k := make([]byte, len(h))
	copy(k, h[:])
	copy(k, prefix)
	return k
}

// invC17RootOf calculates the reference root hash of the given set by adding the elements into a fresh, never evicted, trie.
func invC17RootOf(t *testing.T, elems [][]byte) crypto.Digest {
	ref, err := MakeTrie(nil, defaultTestMemoryConfig)
	require.NoError(t, err)
	for _, e := range elems {
		added, err := ref.Add(append([]byte{}, e...))
		require.NoError(t, err)
		require.True(t, added)
	}
	root, err := ref.RootHash()
	require.NoError(t, err)
	return root
}

// TestInvC17FailedDeleteLeavesTrieIntact checks that a Delete that fails with a ( transient ) storage error leaves the trie
// representing the very same set : the element is still a member ( so that a second Delete reports true ), and the root
// hash after that is the one of the remaining set. Every possible failing LoadPage call of the Delete is being tested.
func TestInvC17FailedDeleteLeavesTrieIntact(t *testing.T) {
	partitiontest.PartitionTest(t)

	memConfig := MemoryConfig{
		NodesCountPerPage:         2,
		CachedNodesCount:          0, // evict everything
		PageFillFactor:            0,
		MaxChildrenPagesThreshold: 32,
	}

	// a and b share the first byte, and are the only two children of an inner node. c is the third element.
	a := invC17Key(0x00, 0x00)
	b := invC17Key(0x00, 0x01)
	c := invC17Key(0x01)
	elems := [][]byte{a, b, c}

	for _, victim := range [][]byte{a, b} {
		var remaining [][]byte
		for _, e := range elems {
			if string(e) != string(victim) {
				remaining = append(remaining, e)
			}
		}
		expectedRootBefore := invC17RootOf(t, elems)
		expectedRootAfter := invC17RootOf(t, remaining)

		failures := 0
		for failAt := 1; ; failAt++ {
			committer := &invC17NthLoadFailCommitter{}
			mt, err := MakeTrie(committer, memConfig)
			require.NoError(t, err)
			for _, e := range elems {
				added, err := mt.Add(append([]byte{}, e...))
				require.NoError(t, err)
				require.True(t, added)
			}
			_, err = mt.Evict(true)
			require.NoError(t, err)
			root, err := mt.RootHash()
			require.NoError(t, err)
			require.Equal(t, expectedRootBefore, root)
			_, err = mt.Evict(false)
			require.NoError(t, err)

			committer.arm(failAt)
			deleted, err := mt.Delete(append([]byte{}, victim...))
			if err == nil {
				// the Delete needed less than failAt page loads; we've covered all the failure points.
				require.True(t, deleted)
				committer.arm(0)
				root, err = mt.RootHash()
				require.NoError(t, err)
				require.Equal(t, expectedRootAfter, root)
				break
			}
			failures++
			require.ErrorIs(t, err, errInvC17TransientLoad)
			require.False(t, deleted)

			// the storage works again. The failed Delete must not have changed the set :
			// all three elements are still members ( Add reports false on existing members ).
			for _, e := range elems {
				added, err := mt.Add(append([]byte{}, e...))
				require.NoErrorf(t, err, "failAt %d", failAt)
				require.Falsef(t, added, "failAt %d : element %x is no longer reported as a member after a failed Delete", failAt, e)
			}
			root, err = mt.RootHash()
			require.NoError(t, err)
			require.Equalf(t, expectedRootBefore, root, "failAt %d : root hash changed by a failed Delete", failAt)

			// retrying the Delete now succeeds, and reports that the element was a member.
			deleted, err = mt.Delete(append([]byte{}, victim...))
			require.NoErrorf(t, err, "failAt %d", failAt)
			require.Truef(t, deleted, "failAt %d : Delete reports the element %x as missing after an earlier failed Delete", failAt, victim)
			root, err = mt.RootHash()
			require.NoError(t, err)
			require.Equalf(t, expectedRootAfter, root, "failAt %d : root hash is not the one of the remaining set", failAt)

			// and the same is true for a trie reloaded from storage.
			reloaded, err := MakeTrie(committer, memConfig)
			require.NoError(t, err)
			root, err = reloaded.RootHash()
			require.NoError(t, err)
			require.Equalf(t, expectedRootAfter, root, "failAt %d : reloaded root hash is not the one of the remaining set", failAt)
		}
		require.NotZero(t, failures)
	}
}
