// Copyright (C) 2019-2026 Algorand Foundation Ltd.
// This file is part of go-algorand
//
// go-algorand is free software: you can redistribute it and/or modify
// it under the terms of the GNU Affero General Public License as
// published by the Free Software Foundation, either version 3 of the
// License, or (at your option) any later version.
//
// go-algorand is distributed in the hope that it will be useful,
// but WITHOUT ANY WARRANTY; without even the implied warranty of
// MERCHANTABILITY or FITNESS FOR A PARTICULAR PURPOSE.  See the
// GNU Affero General Public License for more details.
//
// You should have received a copy of the GNU Affero General Public License
// along with go-algorand.  If not, see <https://www.gnu.org/licenses/>.

package pools

import (
	"sync"
	"testing"
	"time"

	"github.com/stretchr/testify/require"

	"github.com/algorand/go-algorand/agreement"
	"github.com/algorand/go-algorand/config"
	"github.com/algorand/go-algorand/data/basics"
	"github.com/algorand/go-algorand/data/transactions"
	"github.com/algorand/go-algorand/ledger/ledgercore"
	"github.com/algorand/go-algorand/logging"
	"github.com/algorand/go-algorand/protocol"
	"github.com/algorand/go-algorand/test/partitiontest"
)

// TestInvC44PoolNeverExceedsConfiguredSize checks the property "the pool never
// exceeds its configured size" for a history in which several submitters (the
// REST API handlers and the gossip txHandler all call Remember concurrently in
// a node) hand in valid, pairwise independent transactions while a new block
// is being delivered to the pool.
//
// Only exported entry points are used: Remember, OnNewBlock, PendingCount.
func TestInvC44PoolNeverExceedsConfiguredSize(t *testing.T) {
	partitiontest.PartitionTest(t)

	const poolSize = 2
	const submitters = 6

	secrets, addresses := generateAccounts(submitters + 1)
	l := makeMockLedger(t, initAccFixed(addresses, 1<<32))
	defer l.Close()

	cfg := config.GetDefaultLocal()
	cfg.TxPoolSize = poolSize
	pool := MakeTransactionPool(l, cfg, logging.Base(), nil)

	mkTxn := func(sender int) transactions.SignedTxn {
		tx := transactions.Transaction{
			Type: protocol.PaymentTx,
			Header: transactions.Header{
				Sender:      addresses[sender],
				Fee:         basics.MicroAlgos{Raw: proto.MinTxnFee},
				FirstValid:  0,
				LastValid:   20,
				GenesisHash: l.GenesisHash(),
			},
			PaymentTxnFields: transactions.PaymentTxnFields{
				Receiver: addresses[(sender+1)%len(addresses)],
				Amount:   basics.MicroAlgos{Raw: 1},
			},
		}
		return tx.Sign(secrets[sender])
	}

	// one transaction is pending: the pool has exactly one free slot.
	require.NoError(t, pool.rememberOne(mkTxn(submitters)))
	require.Equal(t, 1, pool.PendingCount())

	// a new (empty) block is added to the ledger; its OnNewBlock notification
	// reaches the pool a little later, as it does in a running node where the
	// notification is asynchronous and the recomputation takes time.
	eval := newBlockEvaluator(t, l)
	ufblk, err := eval.GenerateBlock(nil)
	require.NoError(t, err)
	vb := ledgercore.MakeValidatedBlock(ufblk.UnfinishedBlock(), ufblk.UnfinishedDeltas())
	require.NoError(t, l.AddValidatedBlock(vb, agreement.Certificate{}))

	// meanwhile `submitters` clients submit one valid transaction each.
	var wg sync.WaitGroup
	errs := make([]error, submitters)
	for i := 0; i < submitters; i++ {
		wg.Add(1)
		go func(i int) {
			defer wg.Done()
			errs[i] = pool.rememberOne(mkTxn(i))
		}(i)
	}
	time.Sleep(300 * time.Millisecond)
	pool.OnNewBlock(vb.Block(), vb.Delta())
	wg.Wait()

	admitted := 0
	for _, e := range errs {
		if e == nil {
			admitted++
		}
	}
	t.Logf("admitted %d of %d concurrent submissions, pool holds %d transactions, configured size %d",
		admitted, submitters, pool.PendingCount(), poolSize)

	// the property: the pool never exceeds its configured size.
	require.LessOrEqual(t, pool.PendingCount(), poolSize,
		"transaction pool holds more transactions than its configured TxPoolSize")
	require.LessOrEqual(t, len(pool.PendingTxIDs()), poolSize)
	// and everybody who did not fit must have been told so.
	require.Equal(t, poolSize-1, admitted)
}
