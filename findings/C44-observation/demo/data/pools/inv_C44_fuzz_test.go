package pools

import (
	"fmt"
	"math/rand"
	"os"
	"strconv"
	"testing"

	"github.com/stretchr/testify/require"

	"github.com/algorand/go-algorand/agreement"
	"github.com/algorand/go-algorand/config"
	"github.com/algorand/go-algorand/crypto"
	"github.com/algorand/go-algorand/data/basics"
	"github.com/algorand/go-algorand/data/transactions"
	"github.com/algorand/go-algorand/ledger"
	"github.com/algorand/go-algorand/ledger/ledgercore"
	"github.com/algorand/go-algorand/logging"
	"github.com/algorand/go-algorand/protocol"
)

type c44fuzz struct {
	t       *testing.T
	rnd     *rand.Rand
	l       *ledger.Ledger
	pool    *TransactionPool
	secrets []*crypto.SignatureSecrets
	addrs   []basics.Address
	auth    map[basics.Address]int // who the tester thinks is the auth (index) - only a guess
	history [][]transactions.SignedTxn
	maxSize int
	noteCtr uint64
	multi   int
	reasons map[string]int
	okCnt   int
	rejCnt  int
	protoV  protocol.ConsensusVersion
	log     []string
}

func (f *c44fuzz) logf(format string, args ...any) {
	f.log = append(f.log, fmt.Sprintf(format, args...))
}

func (f *c44fuzz) hdr(sender int) transactions.Header {
	latest := f.l.Latest()
	fv := basics.Round(0)
	switch f.rnd.Intn(6) {
	case 0:
		fv = latest + 1
	case 1:
		fv = latest + 2 // early
	case 2:
		fv = latest.SubSaturate(3)
	case 3, 4:
		fv = 0
	default:
		fv = latest.SubSaturate(basics.Round(f.rnd.Intn(3)))
	}
	lv := fv + basics.Round(f.rnd.Intn(10))
	f.noteCtr++
	h := transactions.Header{
		Sender:      f.addrs[sender],
		Fee:         basics.MicroAlgos{Raw: proto.MinTxnFee + uint64(f.rnd.Intn(3))*1000},
		FirstValid:  fv,
		LastValid:   lv,
		Note:        []byte(strconv.FormatUint(f.noteCtr, 10)),
		GenesisHash: f.l.GenesisHash(),
	}
	if f.rnd.Intn(5) == 0 {
		h.Lease[0] = byte(1 + f.rnd.Intn(2))
	}
	if f.rnd.Intn(12) == 0 {
		h.RekeyTo = f.addrs[f.rnd.Intn(len(f.addrs))]
	}
	if f.rnd.Intn(25) == 0 {
		h.Fee.Raw = 0
	}
	return h
}

func (f *c44fuzz) genTxn() transactions.Transaction {
	s := f.rnd.Intn(len(f.addrs))
	r := f.rnd.Intn(len(f.addrs))
	tx := transactions.Transaction{
		Type:   protocol.PaymentTx,
		Header: f.hdr(s),
		PaymentTxnFields: transactions.PaymentTxnFields{
			Receiver: f.addrs[r],
			Amount:   basics.MicroAlgos{Raw: uint64(f.rnd.Intn(8)) * 100000},
		},
	}
	if f.rnd.Intn(10) == 0 {
		tx.CloseRemainderTo = f.addrs[f.rnd.Intn(len(f.addrs))]
	}
	return tx
}

func (f *c44fuzz) sign(tx transactions.Transaction) transactions.SignedTxn {
	// choose signer: usually believed auth, sometimes sender
	var idx int
	for i, a := range f.addrs {
		if a == tx.Sender {
			idx = i
		}
	}
	signer := idx
	if a, ok := f.auth[tx.Sender]; ok && f.rnd.Intn(4) != 0 {
		signer = a
	}
	stx := tx.Sign(f.secrets[signer])
	if f.addrs[signer] != tx.Sender {
		stx.AuthAddr = f.addrs[signer]
	}
	return stx
}

func (f *c44fuzz) genGroup() []transactions.SignedTxn {
	switch k := f.rnd.Intn(10); {
	case k < 6 || len(f.history) == 0:
		n := 1
		if f.rnd.Intn(3) == 0 {
			n = 2 + f.rnd.Intn(2)
		}
		txs := make([]transactions.Transaction, n)
		for i := range txs {
			txs[i] = f.genTxn()
		}
		if n > 1 && f.rnd.Intn(8) != 0 {
			var group transactions.TxGroup
			for _, tx := range txs {
				group.TxGroupHashes = append(group.TxGroupHashes, crypto.Digest(tx.ID()))
			}
			gid := crypto.HashObj(group)
			for i := range txs {
				txs[i].Group = gid
			}
		}
		out := make([]transactions.SignedTxn, n)
		for i := range txs {
			out[i] = f.sign(txs[i])
		}
		return out
	default:
		// duplicate from history
		n := len(f.history)
		if n > 12 {
			return f.history[n-12+f.rnd.Intn(12)]
		}
		return f.history[f.rnd.Intn(n)]
	}
}

func gkey(g []transactions.SignedTxn) string {
	s := ""
	for _, t := range g {
		s += t.ID().String() + ","
	}
	return s
}

func (f *c44fuzz) dump() string {
	s := ""
	start := 0
	if len(f.log) > 60 {
		start = len(f.log) - 60
	}
	for _, l := range f.log[start:] {
		s += l + "\n"
	}
	return s
}

// check asserts the property.
func (f *c44fuzz) check(where string) {
	t := f.t
	pending := f.pool.PendingTxGroups()
	cnt := 0
	ids := map[transactions.Txid]bool{}
	for _, g := range pending {
		require.NotEmpty(t, g, "%s: empty group in pool\n%s", where, f.dump())
		for _, tx := range g {
			cnt++
			require.False(t, ids[tx.ID()], "%s: txid %v twice in pool\n%s", where, tx.ID(), f.dump())
			ids[tx.ID()] = true
		}
	}
	require.LessOrEqual(t, cnt, f.maxSize, "%s: pool exceeds size\n%s", where, f.dump())
	require.Equal(t, cnt, len(f.pool.PendingTxIDs()), "%s: txids/groups mismatch", where)

	// reference: fresh evaluator on the latest ledger state must accept all pending groups in order
	f.pool.mu.Lock()
	evr := basics.Round(0)
	if f.pool.pendingBlockEvaluator != nil {
		evr = f.pool.pendingBlockEvaluator.Round()
	}
	f.pool.mu.Unlock()
	if evr != f.l.Latest()+1 {
		return
	}
	eval := newBlockEvaluator(t, f.l)
	for i, g := range pending {
		err := eval.TransactionGroup(transactions.WrapSignedTxnsWithAD(g)...)
		if err == ledgercore.ErrNoSpace {
			f.multi++
			eval.ResetTxnBytes()
			err = eval.TransactionGroup(transactions.WrapSignedTxnsWithAD(g)...)
		}
		for _, tx := range g {
			require.GreaterOrEqual(t, tx.Txn.LastValid, f.l.Latest()+1, "%s: expired txn in pool\n%s", where, f.dump())
			_, committed := f.l.CheckConfirmedTail(tx.ID())
			require.False(t, committed, "%s: committed txn in pool\n%s", where, f.dump())
		}
		require.NoError(t, err, "%s: pending group %d (%s) not acceptable by ledger (latest %d)\n%s", where, i, gkey(g), f.l.Latest(), f.dump())
	}
}

func (f *c44fuzz) block() {
	t := f.t
	eval := newBlockEvaluator(t, f.l)
	pending := f.pool.PendingTxGroups()
	included := 0
	p := f.rnd.Intn(4) // 0: none, 1: some, 2: most, 3: all
	// optionally outside txns first
	addOutside := func() {
		for k := f.rnd.Intn(3); k > 0; k-- {
			g := f.genGroup()
			if err := eval.TransactionGroup(transactions.WrapSignedTxnsWithAD(g)...); err == nil {
				f.logf("  block: outside group %s", gkey(g))
				included++
				f.history = append(f.history, g)
				f.noteRekey(g)
			}
		}
	}
	if f.rnd.Intn(2) == 0 {
		addOutside()
	}
	perm := f.rnd.Perm(len(pending))
	if f.rnd.Intn(2) == 0 {
		for i := range perm {
			perm[i] = i
		}
	}
	for _, i := range perm {
		g := pending[i]
		take := false
		switch p {
		case 1:
			take = f.rnd.Intn(3) == 0
		case 2:
			take = f.rnd.Intn(4) != 0
		case 3:
			take = true
		}
		if !take {
			continue
		}
		if err := eval.TransactionGroup(transactions.WrapSignedTxnsWithAD(g)...); err == nil {
			f.logf("  block: pool group %s", gkey(g))
			included++
		}
	}
	if f.rnd.Intn(2) == 0 {
		addOutside()
	}
	ufblk, err := eval.GenerateBlock(nil)
	require.NoError(t, err)
	vb := ledgercore.MakeValidatedBlock(ufblk.UnfinishedBlock(), ufblk.UnfinishedDeltas())
	require.NoError(t, f.l.AddValidatedBlock(vb, agreement.Certificate{}))
	f.logf("BLOCK %d with %d groups", vb.Block().Round(), included)
	if f.rnd.Intn(4) == 0 {
		f.pool.OnNewBlock(vb.Block(), ledgercore.StateDelta{})
	} else {
		f.pool.OnNewBlock(vb.Block(), vb.Delta())
	}
}

func (f *c44fuzz) noteRekey(g []transactions.SignedTxn) {
	for _, tx := range g {
		if !tx.Txn.RekeyTo.IsZero() {
			for i, a := range f.addrs {
				if a == tx.Txn.RekeyTo {
					f.auth[tx.Txn.Sender] = i
				}
			}
		}
	}
}

func (f *c44fuzz) submit() {
	g := f.genGroup()
	err := f.pool.Remember(g)
	if err == nil {
		f.okCnt++
		f.logf("REMEMBER ok %s", gkey(g))
		f.history = append(f.history, g)
		f.noteRekey(g)
	} else {
		f.rejCnt++
		if f.reasons == nil {
			f.reasons = map[string]int{}
		}
		f.reasons[ClassifyTxPoolError(err)]++
		f.logf("REMEMBER rejected %s: %v", gkey(g), err)
		if f.rnd.Intn(3) == 0 {
			f.history = append(f.history, g)
		}
	}
}

func runC44Fuzz(t *testing.T, seed int64, steps int, pv protocol.ConsensusVersion, poolSize int, bal uint64) {
	rnd := rand.New(rand.NewSource(seed))
	secrets, addresses := generateAccounts(5)
	l := mockLedger(t, initAccFixed(addresses, bal), pv)
	defer l.Close()
	cfg := config.GetDefaultLocal()
	cfg.TxPoolSize = poolSize + rnd.Intn(6)
	pool := MakeTransactionPool(l, cfg, logging.Base(), nil)
	f := &c44fuzz{t: t, rnd: rnd, l: l, pool: pool, secrets: secrets, addrs: addresses, auth: map[basics.Address]int{}, maxSize: cfg.TxPoolSize}
	for i := 0; i < steps; i++ {
		if rnd.Intn(7) == 0 {
			f.block()
			f.check(fmt.Sprintf("seed %d step %d after block", seed, i))
		} else {
			f.submit()
			f.check(fmt.Sprintf("seed %d step %d after submit", seed, i))
		}
	}
	t.Logf("seed %d: ok %d rejected %d multiBlockChecks %d rounds %d reasons %v", seed, f.okCnt, f.rejCnt, f.multi, l.Latest(), f.reasons)
}

func TestInvC44Fuzz(t *testing.T) {
	logging.Base().SetLevel(logging.Error)
	n := 30
	if s := os.Getenv("C44_SEEDS"); s != "" {
		n, _ = strconv.Atoi(s)
	}
	for seed := int64(1); seed <= int64(n); seed++ {
		runC44Fuzz(t, seed, 250, protocol.ConsensusCurrentVersion, 3, 1500000)
	}
}

func TestInvC44FuzzMultiBlock(t *testing.T) {
	logging.Base().SetLevel(logging.Error)
	pv := protocol.ConsensusVersion("inv-c44-small-blocks")
	params := config.Consensus[protocol.ConsensusCurrentVersion]
	params.MaxTxnBytesPerBlock = 1200
	params.ApprovedUpgrades = map[protocol.ConsensusVersion]uint64{}
	config.Consensus[pv] = params
	defer delete(config.Consensus, pv)
	n := 20
	if s := os.Getenv("C44_SEEDS"); s != "" {
		n, _ = strconv.Atoi(s)
	}
	for seed := int64(1); seed <= int64(n); seed++ {
		runC44Fuzz(t, 1000+seed, 250, pv, 14, 15000000)
	}
}
