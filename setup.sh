#!/bin/bash
# Builds the static analyser offline from the module cache and generates the
# one libsodium header that ./configure would have produced.
set -euo pipefail
cd "$(dirname "$0")"
V=$PWD
REPO=${REPO:-/repo}
mkdir -p tools/cgo-include/sodium bin evidence
IN=$REPO/crypto/libsodium-fork/src/libsodium/include/sodium/version.h.in
sed -e 's/@VERSION@/1.0.17/' -e 's/@SODIUM_LIBRARY_VERSION_MAJOR@/10/' -e 's/@SODIUM_LIBRARY_VERSION_MINOR@/2/' \
    -e 's/@SODIUM_LIBRARY_MINIMAL_DEF@//' -e 's/#include "export.h"/#include <sodium\/export.h>/' "$IN" > tools/cgo-include/sodium/version.h
export GOFLAGS=-mod=mod GOPROXY=off GOSUMDB=off GOTOOLCHAIN=local GOWORK=off
export PATH=/opt/veriftools/go1.26.8/bin:$PATH
(cd tools/avcheck && go build -o "$V/bin/avcheck" .)
echo "setup ok: $(./bin/avcheck -list | wc -l) properties registered"
