#!/bin/bash
# Regression suite of the checker itself (not a registered check): every
# breaking mutant under mutants/<prop>/ must be detected by that property's
# check and every benign-* mutant must stay silent. Mutants are applied to a
# scratch git worktree outside /repo and /verif, which is removed at the end.
cd "$(dirname "$0")"
export AVCHECK_WT=${AVCHECK_WT:-/var/tmp/avcheck-selftest-wt}
rc=0
for d in mutants/*/; do
  p=$(basename "$d")
  ./bin/avcheck -list | grep -q "^$p " || { echo "SKIP $p (not registered)"; continue; }
  scripts/mutant.sh "$p" "$d"*.patch || rc=1
done
git -C /repo worktree remove --force "$AVCHECK_WT" 2>/dev/null; git -C /repo worktree prune
exit $rc
