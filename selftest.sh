#!/bin/bash
# Regression suite of the checker itself (not a registered check): every
# breaking mutant under mutants/<prop>/ must be detected by that property's
# check and every benign-* mutant must stay silent; every independently seeded
# breaking change under seeded/<prop>-k/ must be detected too. Mutants are applied to
# scratch git worktrees outside /repo and /verif (one per worker), which are
# removed at the end. Usage: ./selftest.sh [prop…]   (J=workers, default 4)
cd "$(dirname "$0")"
J=${J:-4}
props=${*:-$(ls mutants)}
mkdir -p /var/tmp/avcheck-logs
run_one() {
  p=$1
  ./bin/avcheck -list | grep -q "^$p " || { echo "SKIP $p (not registered)"; return 0; }
  AVCHECK_WT=/var/tmp/avcheck-selftest-$p scripts/mutant.sh "$p" mutants/$p/*.patch $(ls seeded/$p-*/patch.diff 2>/dev/null) > /var/tmp/avcheck-logs/selftest-$p.log 2>&1
  rc=$?
  git -C /repo worktree remove --force /var/tmp/avcheck-selftest-$p 2>/dev/null
  ok=$(grep -c '^OK' /var/tmp/avcheck-logs/selftest-$p.log); bad=$(grep -c '^FAIL\|^PATCH-FAILED' /var/tmp/avcheck-logs/selftest-$p.log)
  echo "$p ok=$ok fail=$bad"
  [ "$bad" -gt 0 ] && grep '^FAIL\|^PATCH-FAILED' /var/tmp/avcheck-logs/selftest-$p.log | cut -c1-200
  return $rc
}
export -f run_one
echo $props | tr ' ' '\n' | xargs -P "$J" -I{} bash -c 'run_one {}'
git -C /repo worktree prune
