#!/bin/bash
# Usage: scripts/mutant.sh <prop> <patch> [more patches…]
# Applies each patch to a scratch git worktree of /repo (outside /repo and
# /verif), runs the property's check against it and prints the verdict.
# A patch named benign-*.patch must stay silent; any other must raise VIOLATION.
set -uo pipefail
V=$(cd "$(dirname "$0")/.." && pwd)
PROP=$1; shift
WT=${AVCHECK_WT:-/var/tmp/avcheck-wt}
if [ ! -d "$WT/.git" ] && [ ! -f "$WT/.git" ]; then
  git -C /repo worktree prune
  git -C /repo worktree add --detach "$WT" HEAD >/dev/null 2>&1 || { echo "cannot create worktree"; exit 2; }
fi
git -C "$WT" checkout -q -- . && git -C "$WT" clean -fdq && git -C "$WT" checkout -q --detach "$(git -C /repo rev-parse HEAD)"
rc=0
for P in "$@"; do P=$(readlink -f "$P")
  git -C "$WT" checkout -q -- . && git -C "$WT" clean -fdq
  if ! git -C "$WT" apply "$P"; then echo "PATCH-FAILED $P"; rc=1; continue; fi
  out=$("${AVCHECK_BIN:-$V/bin/avcheck}" -prop "$PROP" -root "$WT" -no-evidence ${TIER:+-tier $TIER} 2>&1); code=$?
  name=$(basename "$P")
  if [[ $name == benign-* ]]; then
    if [ $code -eq 0 ]; then echo "OK   silent   $PROP $name"; else echo "FAIL alarm-on-benign $PROP $name"; echo "$out" | grep -E "VIOLATED|UNDECIDED|infrastructure|error" | head -5; rc=1; fi
  else
    if [ $code -eq 1 ]; then echo "OK   detected $PROP $name :: $(echo "$out" | grep -E "^  (VIOLATED|UNDECIDED)" | head -1 | cut -c1-220)"; else echo "FAIL missed($code) $PROP $name"; echo "$out" | grep -E "infrastructure|error" | head -5; rc=1; fi
  fi
  git -C "$WT" checkout -q -- . && git -C "$WT" clean -fdq
done
exit $rc
