#!/usr/bin/env python3
"""seed_prompt.py <id> <n> [variant text] — writes /var/tmp/seed_<id>_<n>.txt (prompt for an independent sub-agent that gets only the property text)."""
import sys, json
pid, n = sys.argv[1], sys.argv[2]
variant = sys.argv[3] if len(sys.argv) > 3 else ""
prop = next(json.loads(l) for l in open("/verif/properties.jsonl") if json.loads(l)["id"] == pid)
keep = {k: prop[k] for k in ("id", "title", "statement", "quantifier", "why_tests_cant", "anchors")}
t = open("/var/tmp/seed_prompt.txt").read()
t = t.replace("%PROP%", json.dumps(keep, indent=1)).replace("%ID%", pid).replace("%WT%", f"/tmp/seed-{pid}-{n}").replace("%OUT%", f"/tmp/seed-out/{pid}-{n}").replace("%VARIANT%", variant)
p = f"/var/tmp/seed_{pid}_{n}.txt"
open(p, "w").write(t)
print(p)
