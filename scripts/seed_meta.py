#!/usr/bin/env python3
"""seed_meta.py <Cnn-k> "<what it needs to manifest>" "<verdict of avcheck: rule@construct or MISSED…>" — writes seeded/<Cnn-k>/meta.json"""
import sys, json, os, subprocess
k, needs, verdict = sys.argv[1], sys.argv[2], sys.argv[3]
V = os.path.normpath(os.path.join(os.path.dirname(os.path.abspath(__file__)), ".."))
d = os.path.join(V, "seeded", k)
demo = []
for r, _, fs in os.walk(os.path.join(d, "demo")):
    for f in fs:
        demo.append(os.path.relpath(os.path.join(r, f), os.path.join(d, "demo")))
meta = {
 "property": k.split("-")[0],
 "source": "independent sub-agent given only the property text and a scratch worktree of /repo",
 "patch": "patch.diff",
 "demonstration": sorted(demo),
 "needs_to_manifest": needs,
 "confirmed_by": [
   "scripts/confirm_seed.sh " + k + " : demo passes on the unchanged tree (go test -run Seeded in a scratch worktree with /opt/sodium-libs), patch applies, touched packages build, demo fails with the patch",
 ],
 "checked_with": "scripts/mutant.sh %s seeded/%s/patch.diff (patch applied to a scratch worktree, avcheck -prop %s -root <worktree>)" % (k.split("-")[0], k, k.split("-")[0]),
 "avcheck_verdict": verdict,
}
json.dump(meta, open(os.path.join(d, "meta.json"), "w"), indent=1)
print("wrote", os.path.join(d, "meta.json"))
