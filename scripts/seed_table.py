#!/usr/bin/env python3
"""Prints the markdown table of seeded changes from seeded/*/meta.json."""
import json, glob, os
V = os.path.normpath(os.path.join(os.path.dirname(os.path.abspath(__file__)), ".."))
print("| seed | needs to manifest | verdict of the property's check |")
print("|---|---|---|")
for m in sorted(glob.glob(os.path.join(V, "seeded", "*", "meta.json"))):
    d = json.load(open(m))
    k = os.path.basename(os.path.dirname(m))
    print("| %s | %s | %s |" % (k, d["needs_to_manifest"].replace("|", "/"), d["avcheck_verdict"].replace("|", "/")))
