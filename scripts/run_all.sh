#!/bin/bash
# Runs every registered check (quick tier by default; TIER=thorough) on /repo,
# up to $J at a time, and prints one line per property.
cd "$(dirname "$0")/.."
J=${J:-4}
ids=$(./bin/avcheck -list | awk '{print $1}' | grep -v '^X')
mkdir -p /var/tmp/avcheck-logs
echo "$ids" | xargs -P "$J" -I{} sh -c './bin/avcheck -prop {} ${TIER:+-tier $TIER} > /var/tmp/avcheck-logs/{}.log 2>&1; echo "{} exit=$? $(tail -1 /var/tmp/avcheck-logs/{}.log | cut -c1-160)"' | sort
