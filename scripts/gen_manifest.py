#!/usr/bin/env python3
"""Regenerates /verif/MANIFEST.json from the rules registered in bin/avcheck."""
import json, subprocess, os
V = os.path.normpath(os.path.join(os.path.dirname(os.path.abspath(__file__)), ".."))
props = {json.loads(l)["id"]: json.loads(l) for l in open(os.path.join(V, "properties.jsonl"))}
desc = json.loads(subprocess.check_output([os.path.join(V, "bin/avcheck"), "-describe"]))
base = json.load(open("/root/.vp/BASELINE.json"))
NA = {
 "C05": "Liveness under synchrony quantifies over delivery timing and a bounded number of periods: a temporal property of composed timers, network and state machine. No clause is a shape-of-code fact that is also a necessary condition; a model checker is the right family, not static analysis.",
 "C32": "Opcode results are purely numerical (equality with a big-integer reference for all operands); no sound static argument in reach short of symbolic execution, which is a different family.",
 "C38": "An algebraic inequality between two big-integer formulas over the admissible domain; deciding it is a solver/proof-assistant task. The structural facts available (shared sub-expression helpers) are not necessary conditions.",
 "C45": "Exactness of OAdd/OSub/OMul/Muldiv/Divvy is arithmetic over all operands. The use side (overflow flags must be tested) is checked under C18/C24/C25 where it is a necessary condition; claiming C45 through it would be a proxy.",
}
TECH = "static analysis: typed AST + go/ssa dominance/reachability rules (must-guard, ownership, pairing, table agreement) over /repo's current source"
checks = []
for d in desc:
    pid = d["id"]
    checks.append({
        "property_id": pid,
        "quick_cmd": f"./bin/avcheck -prop {pid} -tier quick",
        "thorough_cmd": f"./bin/avcheck -prop {pid} -tier thorough",
        "evidence_file": f"/verif/evidence/{pid}.json",
        "replay_cmd_template": f"./bin/avcheck -prop {pid} -explain {{path}}",
        "engine": "avcheck",
        "level_claimed": {
            "category": "other",
            "text": "Static analysis of the resolved program (type-checked AST, SSA, dominators). Decides structural necessary conditions of the property on every path of every function in scope, not the behavioural property itself: " + d["explanation"],
            "design_ref": "DESIGN.md §5 " + pid,
        },
        "level_note": "Trusted: go/types, x/tools go/ssa, the frozen owner/exception tables in tools/avcheck/rules_%s.go; %s" % (pid.lower(), "; ".join(d.get("assumptions") or ["no property-specific assumption"])),
        "technique": TECH,
    })
claimed = {c["property_id"] for c in checks}
na = []
for pid in sorted(props):
    if pid in claimed:
        continue
    na.append({"property_id": pid, "reason": NA.get(pid, "rules for this property are not implemented yet in this revision of the checker (planned in DESIGN.md §5); nothing is claimed for it")})
m = {
 "version": 1,
 "setup_cmd": "./setup.sh",
 "hooks": {"guard": "verif", "enable": "none needed: static analysis reads the source, no instrumentation is compiled in", "baseline_off_cmd": base["cmd"], "source_commits": [], "add_only": True},
 "engines": [{"name": "avcheck", "path": "tools/avcheck", "serves_properties": sorted(claimed), "kind_free_text": "repository-specific static analyser (go/packages + go/types + go/ssa + dominators); one rule set per property"}],
 "checks": checks,
 "not_applicable": na,
 "notes": "Every check loads and type-checks /repo's working tree on each run (go/packages, go1.26.8, cgo against the in-repo libsodium headers) and never executes repository code. Exit 2 without a VIOLATION line means an infrastructure failure (load/type error).",
}
json.dump(m, open(os.path.join(V, "MANIFEST.json"), "w"), indent=1)
print("MANIFEST.json:", len(checks), "checks,", len(na), "not applicable")
