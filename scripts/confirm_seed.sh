#!/bin/bash
# Usage: scripts/confirm_seed.sh <Cnn-k> [extra go-test args]
# Confirms a sub-agent's seeded change from /tmp/seed-out/<Cnn-k>: the demo
# passes on the unchanged tree, the patch applies and builds, the demo fails
# with the patch. On success stores it under /verif/seeded/<Cnn-k>/.
set -uo pipefail
K=$1; shift
SRC=/tmp/seed-out/$K
V=$(cd "$(dirname "$0")/.." && pwd)
WT=/tmp/confirm-$K
[ -f "$SRC/patch.diff" ] || { echo "no patch in $SRC"; exit 2; }
git -C /repo worktree prune
git -C /repo worktree add --detach "$WT" HEAD >/dev/null 2>&1 || { echo "cannot create worktree"; exit 2; }
trap 'git -C /repo worktree remove --force "$WT" >/dev/null 2>&1; git -C /repo worktree prune' EXIT
ln -s /opt/sodium-libs "$WT/crypto/libs"
export GOFLAGS=-mod=mod GOPROXY=off GOTOOLCHAIN=auto
cp -r "$SRC/demo/." "$WT/"
pkgs=$(cd "$SRC/demo" && find . -name '*_test.go' -o -name '*.go' | xargs -n1 dirname | sort -u)
cd "$WT"
EXTRA=("$@")
run() { local ok=0; for p in $pkgs; do timeout 1500 go test -count=1 -run 'Seeded' "${EXTRA[@]}" "$p/" > "/tmp/confirm-$K.$1.log" 2>&1 || ok=1; tail -5 "/tmp/confirm-$K.$1.log" | sed "s/^/    /"; done; return $ok; }
echo "== demo on unchanged tree (must pass)"
run base; base=$?
git apply "$SRC/patch.diff" || { echo "PATCH DOES NOT APPLY"; exit 1; }
echo "== build with patch"
for p in $(git diff --name-only | xargs -n1 dirname | sort -u); do go build "./$p/" || { echo "BUILD FAILS"; exit 1; }; done
echo "== demo with patch (must fail)"
run patched; patched=$?
echo "base=$base patched=$patched"
if [ $base -eq 0 ] && [ $patched -ne 0 ]; then
  mkdir -p "$V/seeded/$K"; cp "$SRC/patch.diff" "$V/seeded/$K/"; rm -rf "$V/seeded/$K/demo"; cp -r "$SRC/demo" "$V/seeded/$K/demo"; cp "$SRC/notes.md" "$V/seeded/$K/notes.md" 2>/dev/null
  echo "CONFIRMED $K"
else
  echo "NOT CONFIRMED $K"; exit 1
fi
