#!/bin/bash
# seed_batch.sh <Cnn-k>... : confirm each seed and run the property's check against it
cd "$(dirname "$0")/.."
for K in "$@"; do
  P=${K%%-*}
  echo "##### $K"
  if scripts/confirm_seed.sh "$K" > /tmp/seedbatch-$K.log 2>&1; then
    echo "confirmed"
    AVCHECK_WT=/var/tmp/avcheck-seed-wt scripts/mutant.sh "$P" "seeded/$K/patch.diff" | cut -c1-420
  else
    tail -4 /tmp/seedbatch-$K.log
  fi
done
