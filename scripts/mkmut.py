#!/usr/bin/env python3
"""mkmut.py <prop> <name> (<file> <old> <new>)+  — create mutants/<prop>/<name>.patch
by exact single-occurrence string replacement in the scratch worktree."""
import sys, subprocess, os
wt = os.environ.get("AVCHECK_WT", "/var/tmp/avcheck-wt")
prop, name = sys.argv[1], sys.argv[2]
trip = sys.argv[3:]
assert len(trip) % 3 == 0 and trip
if not os.path.exists(os.path.join(wt, ".git")):
    subprocess.call(["git", "-C", "/repo", "worktree", "prune"])
    subprocess.check_call(["git", "-C", "/repo", "worktree", "add", "--detach", wt, "HEAD"], stdout=subprocess.DEVNULL, stderr=subprocess.DEVNULL)
subprocess.check_call(["git", "-C", wt, "checkout", "-q", "--", "."])
for i in range(0, len(trip), 3):
    f, old, new = trip[i:i+3]
    p = os.path.join(wt, f)
    s = open(p).read()
    n = s.count(old)
    if n != 1:
        sys.exit(f"{f}: pattern occurs {n} times: {old!r}")
    open(p, "w").write(s.replace(old, new))
d = os.path.join(os.path.dirname(os.path.abspath(__file__)), "..", "mutants", prop)
os.makedirs(d, exist_ok=True)
diff = subprocess.check_output(["git", "-C", wt, "diff"])
open(os.path.join(d, name + ".patch"), "wb").write(diff)
subprocess.check_call(["git", "-C", wt, "checkout", "-q", "--", "."])
print("wrote", os.path.normpath(os.path.join(d, name + ".patch")), len(diff), "bytes")
